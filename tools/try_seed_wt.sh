#!/bin/bash
# try_seed_wt.sh <seed-id> <tier> <check>...: like try_seed.sh but leaves /repo alone: the seeded change is applied
# in a scratch worktree of /repo's HEAD and the checks are pointed at it with VERIF_REPO (used while a background
# run is reading /repo). Evidence files written by these runs describe the changed tree and are restored afterwards.
s=$1; tier=$2; shift 2
wt=/tmp/seedwt-$s
git -C /repo worktree remove --force $wt 2>/dev/null; rm -rf $wt
git -C /repo worktree add -q --detach $wt HEAD || exit 2
trap 'git -C /repo worktree remove --force '$wt'; git -C /verif checkout -q -- evidence' EXIT
( cd $wt && { git apply /verif/seeded/$s/patch.rebased.diff 2>/dev/null || git apply /verif/seeded/$s/patch.diff; } ) || { echo "patch does not apply"; exit 2; }
cd /verif
for c in "$@"; do
  VERIF_REPO=$wt ./check $c $tier 2>&1 | grep -E "^(VIOLATION|INFRA|C[0-9]+ )" | cut -c1-300
  echo "   -> $c exit=${PIPESTATUS[0]}"
done
