// instrument: mechanical, line-preserving source rewrites of
// /repo/internal/server for the verif harness, plus overlay.json generation.
//
// Rewrites (all textual splices at AST positions, never adding a newline
// before the end of file, so every line number of the original is kept):
//  1. import "sync"              -> sync "<mod>/internal/verif/vsync"
//  1b. import "sync/atomic"      -> atomic "<mod>/internal/verif/vatomic" (every atomic operation is a scheduling point)
//  2. go f(args)                 -> vsched.Go(...)   (arguments evaluated eagerly)
//  3. os.<FileOp>(...)           -> vos.<FileOp>(...)
//  4. http.Transport{...}        -> + DialContext: memnet.DialContext
//  5. range over ordered-key map -> range vsched.Sorted(m)   (type-aware)
//  5b. range over a map with unsortable keys -> range vsched.Permuted(m): ordered by a harness-supplied key name
//      (request id) and rotated by a choice point
//  7. close(ch) / <x>.cancel...(…) statements -> vsched.Signal(); <stmt>   (a scheduling point before channel closes
//     and context cancellations, which no shim intercepts)
//
// Exit status: 0 ok, 2 infrastructure error (never 1).
package main

import (
	"bytes"
	"crypto/sha256"
	"encoding/hex"
	"encoding/json"
	"flag"
	"fmt"
	"go/ast"
	"go/importer"
	"go/parser"
	"go/token"
	"go/types"
	"io"
	"os"
	"os/exec"
	"path/filepath"
	"sort"
	"strings"
)

const modPath = "github.com/basecamp/kamal-proxy"

var vosFuncs = map[string]bool{
	"Create": true, "Open": true, "OpenFile": true, "CreateTemp": true, "Rename": true,
	"Remove": true, "WriteFile": true, "ReadFile": true, "Truncate": true, "Link": true,
}

// range statements over maps whose keys cannot be sorted (by file, by offset of the range expression)
var unorderedMapRanges = map[string]map[int]bool{}

type edit struct {
	start, end int // byte offsets in the original source
	text       string
}

func fatal(format string, a ...any) {
	fmt.Fprintf(os.Stderr, "instrument: "+format+"\n", a...)
	os.Exit(2)
}

func main() {
	repo := flag.String("repo", "/repo", "repository root")
	verif := flag.String("verif", "/verif", "verif root")
	out := flag.String("out", "/verif/build", "output directory")
	plain := flag.Bool("plain", false, "plain mode: real sync and goroutines (race pass)")
	gobin := flag.String("go", "go1.26.8", "go command used for export data")
	flag.Parse()

	pkgDir := filepath.Join(*repo, "internal", "server")
	entries, err := os.ReadDir(pkgDir)
	if err != nil {
		fatal("%v", err)
	}
	sub := "gen"
	if *plain {
		sub = "genplain"
	}
	genDir := filepath.Join(*out, sub)
	os.RemoveAll(genDir)
	if err := os.MkdirAll(genDir, 0o755); err != nil {
		fatal("%v", err)
	}

	replace := map[string]string{}
	fset := token.NewFileSet()
	var files []*ast.File
	var names []string
	srcs := map[string][]byte{}
	for _, e := range entries {
		n := e.Name()
		if e.IsDir() || !strings.HasSuffix(n, ".go") {
			continue
		}
		full := filepath.Join(pkgDir, n)
		if strings.HasSuffix(n, "_test.go") {
			replace[full] = "" // deleted in the overlay
			continue
		}
		src, err := os.ReadFile(full)
		if err != nil {
			fatal("%v", err)
		}
		f, err := parser.ParseFile(fset, full, src, parser.ParseComments)
		if err != nil {
			fatal("parse %s: %v", n, err)
		}
		files = append(files, f)
		names = append(names, n)
		srcs[n] = src
	}

	// type information for rewrite 5 (cached by digest of the sources)
	mapRanges := typedMapRanges(*repo, *out, *gobin, fset, files, names, srcs)

	for i, f := range files {
		n := names[i]
		src := srcs[n]
		res := rewriteFile(fset, f, src, n, *plain, mapRanges[n])
		dst := filepath.Join(genDir, n)
		if err := os.WriteFile(dst, res, 0o644); err != nil {
			fatal("%v", err)
		}
		replace[filepath.Join(pkgDir, n)] = dst
	}

	// shims -> /repo/internal/verif/<pkg>/
	shimRoot := filepath.Join(*verif, "shim")
	shimPkgs, _ := os.ReadDir(shimRoot)
	for _, p := range shimPkgs {
		if !p.IsDir() {
			continue
		}
		fs, _ := os.ReadDir(filepath.Join(shimRoot, p.Name()))
		for _, f := range fs {
			if strings.HasSuffix(f.Name(), ".go") && !strings.HasSuffix(f.Name(), "_test.go") {
				replace[filepath.Join(*repo, "internal", "verif", p.Name(), f.Name())] = filepath.Join(shimRoot, p.Name(), f.Name())
			}
		}
	}
	// harness -> /repo/internal/server/zz_verif_<name>_test.go
	hs, _ := os.ReadDir(filepath.Join(*verif, "harness"))
	for _, f := range hs {
		if strings.HasSuffix(f.Name(), ".go") {
			base := strings.TrimSuffix(f.Name(), ".go")
			replace[filepath.Join(pkgDir, "zz_verif_"+base+"_test.go")] = filepath.Join(*verif, "harness", f.Name())
		}
	}

	// assembly + its Go declaration -> package server (non-test files)
	as, _ := os.ReadDir(filepath.Join(*verif, "harness", "asm"))
	for _, f := range as {
		replace[filepath.Join(pkgDir, "zz_verif_"+f.Name())] = filepath.Join(*verif, "harness", "asm", f.Name())
	}

	ov, _ := json.MarshalIndent(map[string]any{"Replace": replace}, "", " ")
	ovName := "overlay.json"
	if *plain {
		ovName = "overlay_plain.json"
	}
	if err := os.WriteFile(filepath.Join(*out, ovName), ov, 0o644); err != nil {
		fatal("%v", err)
	}
}

func rewriteFile(fset *token.FileSet, f *ast.File, src []byte, name string, plain bool, mapRanges []ast.Expr) []byte {
	var edits []edit
	off := func(p token.Pos) int { return fset.Position(p).Offset }
	text := func(n ast.Node) string { return string(src[off(n.Pos()):off(n.End())]) }

	osName, httpName := "", ""
	var firstImport *ast.ImportSpec
	for _, imp := range f.Imports {
		if firstImport == nil {
			firstImport = imp
		}
		path := strings.Trim(imp.Path.Value, `"`)
		local := ""
		if imp.Name != nil {
			local = imp.Name.Name
		}
		switch path {
		case "sync":
			if !plain {
				if local == "" {
					local = "sync"
				}
				start := off(imp.Pos())
				edits = append(edits, edit{start, off(imp.End()), local + ` "` + modPath + `/internal/verif/vsync"`})
			}
		case "sync/atomic":
			// rewrite 1b: atomic operations become scheduling points
			if !plain {
				if local == "" {
					local = "atomic"
				}
				edits = append(edits, edit{off(imp.Pos()), off(imp.End()), local + ` "` + modPath + `/internal/verif/vatomic"`})
			}
		case "os":
			osName = "os"
			if local != "" {
				osName = local
			}
		case "net/http":
			httpName = "http"
			if local != "" {
				httpName = local
			}
		}
	}

	needSched, needVos, needMemnet := false, false, false
	var selects []*ast.SelectStmt
	noSignal := map[ast.Stmt]bool{}
	mapSet := map[ast.Expr]bool{}
	for _, e := range mapRanges {
		mapSet[e] = true
	}

	ast.Inspect(f, func(n ast.Node) bool {
		switch x := n.(type) {
		case *ast.GoStmt:
			if plain {
				return true
			}
			needSched = true
			call := x.Call
			if fl, ok := call.Fun.(*ast.FuncLit); ok && len(call.Args) == 0 {
				// go func(){...}()  ->  vsched.Go(func(){...})
				edits = append(edits, edit{off(x.Pos()), off(fl.Pos()), "vsched.Go("})
				edits = append(edits, edit{off(call.Lparen), off(call.Rparen) + 1, ")"})
			} else {
				// go f(a, b) -> vsched.Go(func() func() { f0 := f; a0 := a; a1 := b; return func() { f0(a0, a1) } }())
				var b strings.Builder
				b.WriteString("vsched.Go(func() func() { vf0 := ")
				b.WriteString(text(call.Fun))
				var args []string
				for i, a := range call.Args {
					fmt.Fprintf(&b, "; va%d := %s", i, text(a))
					args = append(args, fmt.Sprintf("va%d", i))
				}
				ell := ""
				if call.Ellipsis.IsValid() {
					ell = "..."
				}
				fmt.Fprintf(&b, "; return func() { vf0(%s%s) } }())", strings.Join(args, ", "), ell)
				edits = append(edits, edit{off(x.Pos()), off(x.End()), b.String()})
				return false // nested go statements inside arguments are not supported
			}
		case *ast.CallExpr:
			if sel, ok := x.Fun.(*ast.SelectorExpr); ok {
				if id, ok := sel.X.(*ast.Ident); ok && osName != "" && id.Name == osName && id.Obj == nil && vosFuncs[sel.Sel.Name] {
					needVos = true
					edits = append(edits, edit{off(id.Pos()), off(id.End()), "vos"})
				}
			}
		case *ast.CompositeLit:
			if sel, ok := x.Type.(*ast.SelectorExpr); ok {
				if id, ok := sel.X.(*ast.Ident); ok && httpName != "" && id.Name == httpName && sel.Sel.Name == "Transport" {
					ownDial := false
					for _, el := range x.Elts {
						kv, ok := el.(*ast.KeyValueExpr)
						if !ok {
							fatal("%s: http.Transport literal with positional fields", name)
						}
						if k, ok := kv.Key.(*ast.Ident); ok && k.Name == "Dial" {
							fatal("%s: http.Transport literal already sets %s", name, k.Name)
						}
						if k, ok := kv.Key.(*ast.Ident); ok && k.Name == "DialContext" {
							// the code under test brings its own dialer: it is evaluated and replaced by the in-memory one
							needMemnet, ownDial = true, true
							edits = append(edits, edit{off(kv.Value.Pos()), off(kv.Value.Pos()), "memnet.ReplaceDial("})
							edits = append(edits, edit{off(kv.Value.End()), off(kv.Value.End()), ")"})
						}
					}
					if ownDial {
						break
					}
					needMemnet = true
					ins := "DialContext: memnet.DialContext"
					if len(x.Elts) > 0 {
						ins += ", "
					}
					edits = append(edits, edit{off(x.Lbrace) + 1, off(x.Lbrace) + 1, ins})
				}
			}
		case *ast.SelectStmt:
			if !plain {
				selects = append(selects, x)
			}
		case *ast.ForStmt:
			if x.Post != nil {
				noSignal[x.Post] = true
			}
		case *ast.LabeledStmt:
			noSignal[x.Stmt] = true
		case *ast.ExprStmt:
			// rewrite 7
			if call, ok := x.X.(*ast.CallExpr); ok && !plain && !noSignal[x] {
				fn := ""
				switch f := call.Fun.(type) {
				case *ast.Ident:
					if f.Name == "close" && f.Obj == nil || strings.Contains(strings.ToLower(f.Name), "cancel") {
						fn = f.Name
					}
				case *ast.SelectorExpr:
					if strings.Contains(strings.ToLower(f.Sel.Name), "cancel") {
						fn = f.Sel.Name
					}
				}
				if fn != "" {
					needSched = true
					edits = append(edits, edit{off(x.Pos()), off(x.Pos()), "vsched.Signal(); "})
				}
			}
		case *ast.RangeStmt:
			if mapSet[x.X] {
				needSched = true
				edits = append(edits, edit{off(x.X.Pos()), off(x.X.Pos()), "vsched.Sorted("})
				edits = append(edits, edit{off(x.X.End()), off(x.X.End()), ")"})
			} else if unorderedMapRanges[name][off(x.X.Pos())] {
				// rewrite 5b: maps with unsortable keys: order owned by the search (vsched.Permuted)
				needSched = true
				edits = append(edits, edit{off(x.X.Pos()), off(x.X.Pos()), "vsched.Permuted("})
				edits = append(edits, edit{off(x.X.End()), off(x.X.End()), ")"})
			}
		}
		return true
	})

	// rewrite 6: blocking selects with several communication cases poll their
	// cases in source order first (Go picks randomly among simultaneously
	// ready cases, which a replayed schedule cannot own). The original select
	// stays as the innermost, blocking, statement.
	{
		base := append([]edit(nil), edits...)
		sort.SliceStable(base, func(i, j int) bool { return base[i].start < base[j].start })
		rewritten := func(from, to int) string {
			var b bytes.Buffer
			pos := from
			for _, e := range base {
				if e.start >= from && e.end <= to && e.start >= pos {
					b.Write(src[pos:e.start])
					b.WriteString(e.text)
					pos = e.end
				}
			}
			b.Write(src[pos:to])
			return b.String()
		}
		labeled := map[ast.Stmt]bool{}
		ast.Inspect(f, func(n ast.Node) bool {
			if ls, ok := n.(*ast.LabeledStmt); ok {
				labeled[ls.Stmt] = true
			}
			return true
		})
		// selects inside a loop over a map with unsortable keys run in an order no
		// schedule can replay: they keep source-order polling but get no choice point
		inUnordered := map[ast.Stmt]bool{}
		ast.Inspect(f, func(n ast.Node) bool {
			if rs, ok := n.(*ast.RangeStmt); ok && unorderedMapRanges[name][off(rs.X.Pos())] {
				ast.Inspect(rs.Body, func(m ast.Node) bool {
					if ss, ok := m.(*ast.SelectStmt); ok {
						inUnordered[ss] = true
					}
					return true
				})
			}
			return true
		})
		for _, sel := range selects {
			ok := len(sel.Body.List) >= 2 && !labeled[sel]
			for _, c := range sel.Body.List {
				cc, isCC := c.(*ast.CommClause)
				if !isCC || cc.Comm == nil {
					ok = false // has a default clause: already non-blocking
				}
			}
			if !ok {
				continue
			}
			needSched = true
			n := len(sel.Body.List)
			id := off(sel.Pos())
			var b strings.Builder
			if inUnordered[sel] {
				fmt.Fprintf(&b, "{ _vsk%d := 0; _vsh%d := false\n", id, id)
			} else {
				fmt.Fprintf(&b, "{ _vsk%d := vsched.Choose(%d); _vsh%d := false\n", id, n, id)
			}
			for pos := 0; pos <= 2*n-2; pos++ {
				cc := sel.Body.List[pos%n].(*ast.CommClause)
				colon := off(cc.Colon)
				fmt.Fprintf(&b, "if !_vsh%d && _vsk%d <= %d && %d < _vsk%d+%d { select {\n", id, id, pos, pos, id, n)
				b.WriteString(rewritten(off(cc.Pos()), colon+1))
				fmt.Fprintf(&b, " _vsh%d = true; ", id)
				b.WriteString(rewritten(colon+1, off(cc.End())))
				b.WriteString("\ndefault:\n} }\n")
			}
			line := fset.Position(sel.Pos()).Line
			fmt.Fprintf(&b, "if !_vsh%d {\n//line %s:%d\n", id, fset.Position(sel.Pos()).Filename, line)
			edits = append(edits, edit{off(sel.Pos()), off(sel.Pos()), b.String()})
			closing := "}}"
			if isTerminating(sel) {
				closing += "; panic(\"unreachable\")"
			}
			edits = append(edits, edit{off(sel.End()), off(sel.End()), closing})
		}
	}

	// extra imports: appended to the first import spec on the same line
	var extra []string
	if needSched {
		extra = append(extra, `vsched "`+modPath+`/internal/verif/vsched"`)
	}
	if needVos {
		extra = append(extra, `vos "`+modPath+`/internal/verif/vos"`)
	}
	if needMemnet {
		extra = append(extra, `memnet "`+modPath+`/internal/verif/memnet"`)
	}
	tail := ""
	if len(extra) > 0 {
		if firstImport == nil {
			fatal("%s: needs imports but has none", name)
		}
		// is the first import inside a parenthesised block?
		inBlock := false
		for _, d := range f.Decls {
			if gd, ok := d.(*ast.GenDecl); ok && gd.Tok == token.IMPORT && gd.Lparen.IsValid() &&
				gd.Pos() <= firstImport.Pos() && firstImport.End() <= gd.End() {
				inBlock = true
			}
		}
		var b strings.Builder
		for _, e := range extra {
			if inBlock {
				b.WriteString("; " + e)
			} else {
				b.WriteString("; import " + e)
			}
		}
		edits = append(edits, edit{off(firstImport.End()), off(firstImport.End()), b.String()})
	}
	if needVos {
		// keep "os" used even if every use was rewritten
		tail = "\nvar _ = " + osName + ".ErrNotExist\n"
	}

	sort.SliceStable(edits, func(i, j int) bool {
		if edits[i].start != edits[j].start {
			return edits[i].start < edits[j].start
		}
		return edits[i].end < edits[j].end
	})
	var outb bytes.Buffer
	pos := 0
	for _, e := range edits {
		if e.start < pos {
			fatal("%s: overlapping edits at offset %d", name, e.start)
		}
		outb.Write(src[pos:e.start])
		outb.WriteString(e.text)
		pos = e.end
	}
	outb.Write(src[pos:])
	outb.WriteString(tail)
	return outb.Bytes()
}

// typedMapRanges type-checks the package (using export data of its
// dependencies from the build cache) and returns, per file, the range
// expressions whose type is a map with an ordered (string/integer) key.
// Positions are cached by source digest; the AST nodes are re-identified by
// offset.
func typedMapRanges(repo, out, gobin string, fset *token.FileSet, files []*ast.File, names []string, srcs map[string][]byte) map[string][]ast.Expr {
	h := sha256.New()
	for _, n := range names {
		io.WriteString(h, n)
		h.Write(srcs[n])
	}
	digest := hex.EncodeToString(h.Sum(nil))[:24]
	cacheDir := filepath.Join(out, "typecache")
	os.MkdirAll(cacheDir, 0o755)
	cacheFile := filepath.Join(cacheDir, digest+".v2.json")

	offsets := map[string][]int{}
	if b, err := os.ReadFile(cacheFile); err == nil && json.Unmarshal(b, &offsets) == nil {
		// ok
	} else {
		offsets = computeMapRanges(repo, gobin, fset, files, names)
		b, _ := json.Marshal(offsets)
		os.WriteFile(cacheFile, b, 0o644)
	}

	unorderedMapRanges = map[string]map[int]bool{}
	for k, v := range offsets {
		if strings.HasSuffix(k, "#u") {
			m := map[int]bool{}
			for _, o := range v {
				m[o] = true
			}
			unorderedMapRanges[strings.TrimSuffix(k, "#u")] = m
		}
	}
	res := map[string][]ast.Expr{}
	for i, f := range files {
		n := names[i]
		want := map[int]bool{}
		for _, o := range offsets[n] {
			want[o] = true
		}
		found := 0
		ast.Inspect(f, func(nd ast.Node) bool {
			if rs, ok := nd.(*ast.RangeStmt); ok && want[fset.Position(rs.X.Pos()).Offset] {
				res[n] = append(res[n], rs.X)
				found++
			}
			return true
		})
		if found != len(offsets[n]) {
			fatal("%s: map range cache mismatch", n)
		}
	}
	return res
}

func computeMapRanges(repo, gobin string, fset *token.FileSet, files []*ast.File, names []string) map[string][]int {
	cmd := exec.Command(gobin, "list", "-export", "-deps", "-f", "{{if .Export}}{{.ImportPath}}={{.Export}}{{end}}", "./internal/server")
	cmd.Dir = repo
	cmd.Env = append(os.Environ(), "GOTOOLCHAIN=local", "GOFLAGS=-mod=mod", "GOPROXY=off")
	var stderr bytes.Buffer
	cmd.Stderr = &stderr
	outb, err := cmd.Output()
	exports := map[string]string{}
	for _, line := range strings.Split(string(outb), "\n") {
		if k, v, ok := strings.Cut(line, "="); ok {
			exports[k] = v
		}
	}
	if err != nil && len(exports) == 0 {
		fatal("go list -export failed: %v\n%s", err, stderr.String())
	}
	lookup := func(path string) (io.ReadCloser, error) {
		p, ok := exports[path]
		if !ok {
			return nil, fmt.Errorf("no export data for %s", path)
		}
		return os.Open(p)
	}
	conf := types.Config{
		Importer: importer.ForCompiler(fset, "gc", lookup),
		Error:    func(err error) {}, // tolerate errors: partial information is enough
	}
	info := &types.Info{Types: map[ast.Expr]types.TypeAndValue{}}
	conf.Check(modPath+"/internal/server", fset, files, info)

	res := map[string][]int{}
	for i, f := range files {
		ast.Inspect(f, func(nd ast.Node) bool {
			rs, ok := nd.(*ast.RangeStmt)
			if !ok {
				return true
			}
			tv, ok := info.Types[rs.X]
			if !ok || tv.Type == nil {
				return true
			}
			m, ok := tv.Type.Underlying().(*types.Map)
			if !ok {
				return true
			}
			if b, ok := m.Key().Underlying().(*types.Basic); ok && b.Info()&(types.IsString|types.IsInteger) != 0 {
				res[names[i]] = append(res[names[i]], fset.Position(rs.X.Pos()).Offset)
			} else {
				res[names[i]+"#u"] = append(res[names[i]+"#u"], fset.Position(rs.X.Pos()).Offset)
			}
			return true
		})
	}
	return res
}

// isTerminating implements the "terminating statement" rules of the Go
// specification (without labels on break): a select that is terminating
// stays so for the compiler only if something terminating follows the block
// the instrumenter wraps it in.
func isTerminating(st ast.Stmt) bool {
	switch x := st.(type) {
	case *ast.ReturnStmt:
		return true
	case *ast.BranchStmt:
		return x.Tok == token.GOTO
	case *ast.ExprStmt:
		if c, ok := x.X.(*ast.CallExpr); ok {
			if id, ok := c.Fun.(*ast.Ident); ok && id.Name == "panic" {
				return true
			}
		}
		return false
	case *ast.BlockStmt:
		return len(x.List) > 0 && isTerminating(x.List[len(x.List)-1])
	case *ast.IfStmt:
		return x.Else != nil && isTerminating(x.Body) && isTerminating(x.Else)
	case *ast.ForStmt:
		return x.Cond == nil && !hasBreak(x.Body)
	case *ast.LabeledStmt:
		return isTerminating(x.Stmt)
	case *ast.SwitchStmt:
		return clausesTerminate(x.Body, true)
	case *ast.TypeSwitchStmt:
		return clausesTerminate(x.Body, true)
	case *ast.SelectStmt:
		return clausesTerminate(x.Body, false)
	}
	return false
}

func clausesTerminate(body *ast.BlockStmt, needDefault bool) bool {
	hasDefault := false
	for _, c := range body.List {
		var list []ast.Stmt
		switch cc := c.(type) {
		case *ast.CaseClause:
			if cc.List == nil {
				hasDefault = true
			}
			list = cc.Body
		case *ast.CommClause:
			list = cc.Body
		}
		if len(list) == 0 {
			return false
		}
		last := list[len(list)-1]
		if br, ok := last.(*ast.BranchStmt); ok && br.Tok == token.FALLTHROUGH {
			continue
		}
		if !isTerminating(last) {
			return false
		}
		for _, s := range list {
			if hasBreak(s) {
				return false
			}
		}
	}
	return hasDefault || !needDefault
}

// hasBreak reports an unlabelled break that would refer to the enclosing statement.
func hasBreak(n ast.Node) bool {
	found := false
	ast.Inspect(n, func(x ast.Node) bool {
		switch y := x.(type) {
		case *ast.ForStmt, *ast.RangeStmt, *ast.SwitchStmt, *ast.TypeSwitchStmt, *ast.SelectStmt, *ast.FuncLit:
			return x == n // do not descend into nested breakable statements
		case *ast.BranchStmt:
			if y.Tok == token.BREAK {
				found = true
			}
		}
		return true
	})
	return found
}
