#!/bin/bash
# seed_merge.sh: merge the rows in /tmp/reg-parts/*.txt into seeded/REGRESSION.txt (newer rows win).
cd /verif || exit 2
python3 - <<'PY'
import glob, subprocess
out='seeded/REGRESSION.txt'
rows={}; head=None
for f in [out]+sorted(glob.glob('/tmp/reg-parts/*.txt')):
    for l in open(f):
        l=l.rstrip('\n')
        if l.startswith('#'):
            if f==out: head=l
            continue
        if l: rows[l.split()[0]]=l
open(out,'w').write((head or '#')+"\n"+"\n".join(rows[k] for k in sorted(rows))+"\n")
PY
git -C /verif checkout -q -- evidence
echo "detected: $(grep -c 'rc=1' seeded/REGRESSION.txt) of $(grep -vc '^#' seeded/REGRESSION.txt)"
grep -v "^#" seeded/REGRESSION.txt | grep -v "rc=1"
