#!/bin/bash
# seed_regression.sh [tier] [seed-id...]: for every confirmed seeded change under /verif/seeded, apply it to /repo,
# run the quick check of its property (C10-b: also C18, whose race pass is the detector), undo it, and record
# whether a VIOLATION (not a KNOWN-FINDING) was reported. Writes seeded/REGRESSION.txt. Never run concurrently
# with other checks: it edits /repo's working tree. With SEED_WT=1 the change is applied in a scratch worktree instead
# and the checks are pointed at it with VERIF_REPO (evidence files are restored afterwards).
tier=${1:-quick}; shift
cd /verif || exit 2
seeds="$@"; [ -z "$seeds" ] && seeds=$(ls seeded | grep -E '^C[0-9]+-')
out=${REG_OUT:-seeded/REGRESSION.txt}; tmp=$(mktemp)   # REG_OUT: write the rows elsewhere (parallel runs, merged later)
for s in $seeds; do
  prop=${s%%-*}; checks=$prop
  [ "$s" = "C10-b" ] && checks="C10 C18"
  [ "$s" = "C18-c" ] && checks="C18 C17"
  [ "$s" = "C08-g" ] && checks="C08 C12"   # snapshot skipped while another one is in progress: overlapping commands + restart = C12's pairs
  [ "$s" = "C04-f" ] && checks="C04 C05"   # two deploys committing stale routing tables: needs overlapping commands; C04 quantifies over command orders, C05 has the racing deploys
  [ "$s" = "C11-f" ] && checks="C11 C12"   # stale cached encoding needs two overlapping commands: C12's overlapping pairs
  [ "$s" = "C06-f" ] && checks="C06 C17"   # a probe left in flight / sent after the failed command returned: C17 owns the probe timing (slow-probe configs, select choice points)
  [ "$s" = "C10-e" ] && checks="C10 C12"
  [ "$s" = "C04-j" ] && checks="C04 C05"   # two overlapping deploys claiming one host: C05's racing deploys
  [ "$s" = "C07-j" ] && checks="C07 C10"   # the group of a held request decided before the gate: rollout commands while paused = C10's held-across-split-change scenarios (C03 reports it too)
  [ "$s" = "C13-j" ] && checks="C13 C14"   # buffers shared after an event stream: C14's overlapping buffered responses
  [ "$s" = "C02-k" ] && checks="C02 C06"   # read lock leaked when the snapshot cannot be written: C06's state-file-fault scenarios (follow-up deploy)
  [ "$s" = "C04-k" ] && checks="C04 C06"   # availability check ends at the first free host: C06's rejected multi-host deploys
  [ "$s" = "C06-k" ] && checks="C06 C12"   # snapshot encoded outside the state lock: C12's overlapping pairs
  [ "$s" = "C08-k" ] && checks="C08 C07"   # requests held across a second pause: C07's sequences
  [ "$s" = "C13-k" ] && checks="C13 C06"   # a refused redeploy leaves its options applied: C06 compares the installed services' options
  [ "$s" = "C19-k" ] && checks="C19 C06"   # the same mechanism, seen through the logged headers
  [ "$s" = "C15-k" ] && checks="C15 C17"   # router lock held for the whole request: commands return late (C17)
  [ "$s" = "C17-k" ] && checks="C17 C08"   # recursive read lock in the pause gate: deadlock with a stop / pause (C08, C07, C18 scenarios with arriving requests)
  [ "$s" = "C18-k" ] && checks="C18 C02"   # pooled in-flight records cancelled by a finished drain: requests failing during a redeploy
  [ "$s" = "C01-l" ] && checks="C01 C17"   # the failure is reported late (k x deploy timeout): return times are C17's
  [ "$s" = "C03-l" ] && checks="C03 C05"   # a redeploy keeping several path prefixes leaves all but one bound to the replaced copy: C05's multi-prefix histories
  [ "$s" = "C04-l" ] && checks="C04 C06"   # a refused redeploy drops the live service from the map: C06 compares state after every failing command
  [ "$s" = "C16-l" ] && checks="C16 C06"   # availability check ends at the first free host (as C04-k): C06's rejected multi-host deploys
  [ "$s" = "C18-l" ] && checks="C18 C17"   # one deadline channel shared by all draining targets: the command outlasts its drain timeout (C17)
  [ "$s" = "C11-i" ] && checks="C11 C12"   # a save skipped while another snapshot is being written: overlapping commands = C12's pairs
  if grep -q '"neutralised_by"' seeded/$s/meta.json 2>/dev/null; then
    echo "$s neutralised-by-a-later-fix (see meta.json: its trigger no longer exists; demo passes on the rebased patch)" | tee -a $tmp
    continue
  fi   # needs overlapping snapshots: C10 quantifies over sequential histories, C12 has the overlapping pairs
  target=/repo
  if [ "${SEED_WT:-0}" = 1 ]; then
    target=/tmp/seedwt-$s
    git -C /repo worktree remove --force $target 2>/dev/null; rm -rf $target
    git -C /repo worktree add -q --detach $target HEAD || exit 2
    export VERIF_REPO=$target
  fi
  if ! git -C $target diff --quiet; then echo "$target dirty"; exit 2; fi
  git -C $target apply /verif/seeded/$s/patch.rebased.diff 2>/dev/null || git -C $target apply /verif/seeded/$s/patch.diff || { echo "$s patch-does-not-apply" >> $tmp; [ $target != /repo ] && git -C /repo worktree remove --force $target; continue; }
  line="$s"
  for c in $checks; do
    t0=$(date +%s)
    o=$(./check $c $tier 2>&1); rc=$?
    nv=$(echo "$o" | grep -c '^VIOLATION')
    first=$(echo "$o" | grep '^VIOLATION' | head -2 | sed 's/.*replay=.*replays\///' | tr '\n' ' ')
    line="$line | $c rc=$rc violations=$nv $(( $(date +%s) - t0 ))s $first"
  done
  if [ $target = /repo ]; then git -C /repo checkout -- .; else git -C /repo worktree remove --force $target; [ -n "${REG_OUT:-}" ] || git -C /verif checkout -q -- evidence; fi
  echo "$line" | tee -a $tmp
done
# merge with the rows of seeds not re-run this time
python3 - "$out" "$tmp" "# tier=$tier repo=$(git -C /repo rev-parse --short HEAD) verif=$(git rev-parse --short HEAD)+wt $(date -u +%FT%TZ) (rows of seeds not re-run are kept from earlier runs)" <<'PY'
import sys, os
out, tmp, head = sys.argv[1:4]
rows = {}
for f in (out, tmp):
    if os.path.exists(f):
        for l in open(f):
            l = l.rstrip("\n")
            if l and not l.startswith("#"):
                rows[l.split()[0]] = l
open(out, "w").write(head + "\n" + "\n".join(rows[k] for k in sorted(rows)) + "\n")
PY
rm -f $tmp
echo "detected: $(grep -c 'rc=1' $out) of $(grep -vc '^#' $out)"
grep -v "^#" $out | grep -v "rc=1"
