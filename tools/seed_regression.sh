#!/bin/bash
# seed_regression.sh [tier] [seed-id...]: for every confirmed seeded change under /verif/seeded, apply it to /repo,
# run the quick check of its property (C10-b: also C18, whose race pass is the detector), undo it, and record
# whether a VIOLATION (not a KNOWN-FINDING) was reported. Writes seeded/REGRESSION.txt. Never run concurrently
# with other checks: it edits /repo's working tree.
tier=${1:-quick}; shift
cd /verif || exit 2
seeds="$@"; [ -z "$seeds" ] && seeds=$(ls seeded | grep -E '^C[0-9]+-')
out=seeded/REGRESSION.txt; tmp=$(mktemp)
for s in $seeds; do
  prop=${s%%-*}; checks=$prop
  [ "$s" = "C10-b" ] && checks="C10 C18"
  [ "$s" = "C18-c" ] && checks="C18 C17"
  if ! git -C /repo diff --quiet; then echo "/repo dirty"; exit 2; fi
  git -C /repo apply /verif/seeded/$s/patch.rebased.diff 2>/dev/null || git -C /repo apply /verif/seeded/$s/patch.diff || { echo "$s patch-does-not-apply" >> $tmp; continue; }
  line="$s"
  for c in $checks; do
    t0=$(date +%s)
    o=$(./check $c $tier 2>&1); rc=$?
    nv=$(echo "$o" | grep -c '^VIOLATION')
    first=$(echo "$o" | grep '^VIOLATION' | head -2 | sed 's/.*replay=.*replays\///' | tr '\n' ' ')
    line="$line | $c rc=$rc violations=$nv $(( $(date +%s) - t0 ))s $first"
  done
  git -C /repo checkout -- .
  echo "$line" | tee -a $tmp
done
# merge with the rows of seeds not re-run this time
python3 - "$out" "$tmp" "# tier=$tier repo=$(git -C /repo rev-parse --short HEAD) verif=$(git rev-parse --short HEAD)+wt $(date -u +%FT%TZ) (rows of seeds not re-run are kept from earlier runs)" <<'PY'
import sys, os
out, tmp, head = sys.argv[1:4]
rows = {}
for f in (out, tmp):
    if os.path.exists(f):
        for l in open(f):
            l = l.rstrip("\n")
            if l and not l.startswith("#"):
                rows[l.split()[0]] = l
open(out, "w").write(head + "\n" + "\n".join(rows[k] for k in sorted(rows)) + "\n")
PY
rm -f $tmp
echo "detected: $(grep -c 'rc=1' $out) of $(grep -vc '^#' $out)"
grep -v "^#" $out | grep -v "rc=1"
