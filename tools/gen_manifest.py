#!/usr/bin/env python3
"""Regenerates /verif/MANIFEST.json from the table below."""
import json, os
V = "/verif"
props = [json.loads(l) for l in open(os.path.join(V, "properties.jsonl"))]
S_NOTE = ("real implementation, instrumented by tools/instrument (sync->vsync, go->vsched.Go, os file ops->vos, http.Transport over memnet, sorted map ranges, source-order select polling), "
          "linked against the go1.26.8 standard library; virtual time and quiescence by testing/synctest; scheduling points at synchronisation operations only (complete for data-race-free code); "
          "bounds, alphabets and configuration lists as stated in the evidence")
H_NOTE = ("real Router/CommandHandler driven by command histories on fresh instances under the default schedule of the controlled scheduler; the reference model is an oracle written from the property statement; "
          "targets are scripted in-memory HTTP servers (memnet); go1.26.8 standard library")
CHECKS = {
 "C01": ("S", "model_checking", "exhaustive exploration of thread schedules of the real deploy / rollout-deploy code, within a deviation bound, over an enumerated product of probe scripts and client placements; oracle on target-side logs (O1-O5)", "3 C01", "stateless model checking (controlled scheduler, deviation-bounded DFS) of the implementation", S_NOTE),
 "C02": ("S", "model_checking", "exhaustive exploration of schedules of redeploy vs concurrent and in-flight requests (deviation bound 2 quick / 3 thorough, no stalls); every response must be the unmodified 200 of a target of the old or new set", "3 C02", "stateless model checking (controlled scheduler, deviation-bounded DFS) of the implementation", S_NOTE),
 "C03": ("S", "model_checking", "exhaustive exploration of schedules of redeploy/pause/stop vs in-flight multisets and late arrivals; oracle Q1-Q6 on target-side activity spans and exact virtual time", "3 C03", "stateless model checking (controlled scheduler, deviation-bounded DFS) of the implementation", S_NOTE),
 "C05": ("S+H", "model_checking", "engine S: racing deploys with overlapping bindings, every schedule within the bound; engine H: every deploy/redeploy/remove history up to the depth bound against a reference ownership map and routing matrix", "3 C05", "stateless model checking of racing deploys + explicit enumeration of command histories against a reference model", S_NOTE + "; " + H_NOTE),
 "C06": ("H", "model_checking", "from every configuration reached by building histories up to the depth bound, every failing command of every error class; before/after comparison of probe matrix, list and state file; probe silence for rejected targets", "3 C06", "explicit-state enumeration of command histories on the real router with a reference model and a before/after differential oracle", H_NOTE),
 "C07": ("S", "model_checking", "exhaustive exploration of schedules (incl. stalls, so each request's own max-pause timer can land before or after the next command) of pause/resume/stop/redeploy sequences vs requests; each request must be explained by some arrival point of a sequential gate model", "3 C07", "stateless model checking (controlled scheduler) + per-request linearisation against a sequential gate model", S_NOTE),
 "C09": ("S", "model_checking", "exhaustive exploration of schedules of probe completions vs request bursts over enumerated per-target probe scripts; oracle: membership in the healthy set derived from probe results, 503 when empty, strict rotation, probe cadence", "3 C09", "stateless model checking (controlled scheduler, deviation-bounded DFS) of the implementation", S_NOTE),
 "C11": ("H", "model_checking", "restart is a transition of the history search; every history up to the depth bound containing a restart; the reference model is unchanged by restart, so every later observation (routing, TLS policy, gate incl. held-request drill, rollout split, options, probed targets, list) must equal the model", "3 C11", "explicit-state enumeration of command histories with restart transitions on the real router against a reference model", H_NOTE),
 "C04": ("E", "model_checking", "small-scope exhaustive enumeration: every conflict-free table of 2 (and 3) services over a binding universe, every deploy order plus remove/redeploy/move/restart variants, 12x12 request matrix, against a 25-line reference routing function", "3 C04", "exhaustive small-scope enumeration of service tables and command orders on the real router against a reference routing function", H_NOTE),
 "C08": ("S+H", "model_checking", "engine H: every history up to the depth bound over stop (7 messages), pause, resume, redeploy, rollout, restart x 4 error-page configurations, probe set incl. exact/inexact health path; engine S: a gate command completing while the same service is redeployed, every schedule within the bound", "3 C08", "explicit enumeration of command histories against a gate model + stateless model checking of overlapping commands", S_NOTE + "; " + H_NOTE),
 "C10": ("E+H", "model_checking", "engine E: every cookie value of length<=3 over a 4-letter alphabet x all 101 percentages x allowlists through the real handler chain (monotone, sticky, 100% total, allowlist, cookie shapes vs an independent parser, unchanged by redeploys and restart), share of 20k/100k ids at every percentage; engine H: rollout command histories against the reference model", "3 C10", "exhaustive small-scope enumeration with metamorphic oracles + history enumeration against a reference model", H_NOTE + "; the share clause is decided for the fixed id population only (DESIGN.md section 4)"),
 "C12": ("F+S", "fault_enumeration", "engine F: every image of the state file after each file operation of the last command of every history up to the depth bound (kill between system calls; thorough: torn in-place writes) restored by the real RestoreLastSavedState and compared with the configuration before/after the command; engine S: overlapping command pairs with file operations as scheduling points, every schedule within the bound", "3 C12", "exhaustive crash-point enumeration over command histories + stateless model checking of overlapping snapshot writers", S_NOTE + "; " + H_NOTE + "; kill model = process death between system calls (data handed to write() survives); power-loss durability (fsync) is not claimed by the property"),
 "C13": ("E", "model_checking", "small-scope exhaustive enumeration of raw requests (every path of <=3/<=4 segments over 9 segment shapes x 4 mounts x 8 raw queries, look-alikes, methods x bodies x 10 responses x header sets x header forwarding) through Server.buildHandler and the real http.Transport to an in-memory echo target; wire request and client response compared byte for byte", "3 C13", "exhaustive small-scope input enumeration through the real handler chain against an independent expectation", H_NOTE),
 "C14": ("E", "model_checking", "level 1: Buffer with every composition of the body into write chunks for all small (memory limit, total limit, length) triples; level 2: buffering on/off x limits x lengths x chunk patterns x endings x {plain, event stream, upgrade} through the handler chain with virtual-time gaps", "3 C14", "exhaustive small-scope enumeration (all chunk compositions) against a bytes.Buffer reference + timing on the virtual clock", H_NOTE),
 "C15": ("F", "fault_enumeration", "every byte offset of the header block (and chunk boundaries, strided body offsets) of 4 scripted responses x {close, stall, garbage}, dial refusal, delays around the target timeout, x buffering x error-page configurations; 502/504 at the exact virtual time with the right page, or a visibly incomplete response; no residue", "3 C15", "exhaustive fault-point enumeration on the real proxy path over an in-memory network", H_NOTE),
 "C16": ("H+E", "model_checking", "histories over root/sub-path services with every TLS/redirect/static-certificate setting, remove, restart; after each: scheme x Host x path/query matrix against the policy computed from the SET of services, GetCertificate for 7 server names; automatic-TLS boundary (host policy, wildcard refusal) without network", "3 C16", "explicit enumeration of command histories against a reference TLS-policy model", H_NOTE + "; certificate issuance (ACME) needs the network and is outside the check"),
 "C18": ("S+H", "model_checking", "panic/deadlock/hang clauses: every unordered pair of 12 commands running concurrently with client threads (plain, cookie, established upgrade, slow, POST) from running and paused, every schedule within the bounds, logical locks with Go's writer-preference for RWMutex so that lock cycles and recursive read locks surface as deadlocks; every command in every sequential state up to the depth bound. The data-race clause is NOT decidable by this family (scheduler hand-offs are happens-before edges): it is covered by a separate free-running -race companion pass reported as race_pass with exhaustive:false", "3 C18 and 4", "stateless model checking (controlled scheduler) for panics/deadlocks/hangs + history enumeration; data races by a sampling race-detector pass, reported separately", S_NOTE + "; " + H_NOTE + "; race clause: sampling (see DESIGN.md section 4)"),
 "C19": ("E", "model_checking", "23 request endings x method x query x request-id x 5 log-header configurations through Server.buildHandler with a capturing slog handler; exactly one record per request, every field equal to what client and target observed", "3 C19", "exhaustive enumeration of request endings through the real handler chain against observed client/target facts", H_NOTE),
 "C20": ("E", "model_checking", "exhaustive enumeration on the binary built from the working tree: every combination of prefixed/bare/malformed environment value per run option read off `run --help` plus flag-over-environment and debug observed on a live proxy; all 256 combinations of the deploy flags involved in validation with no proxy listening; exit status of every client command in succeeding and failing states; list rows after each step of a history", "3 C20", "exhaustive enumeration of CLI flag/environment combinations and command outcomes on the built binary", "uninstrumented binary built with go1.26.8 from /repo's working tree; loopback sockets; scratch HOME/XDG_RUNTIME_DIR; a python HTTP server stands in for targets"),
 "C17": ("S", "model_checking", "stall bound 0 so that virtual elapsed time is exact; return time of every command EQUAL to a reference simulator (probe ticker, first 2xx, remaining in-flight time) over probe scripts x in-flight sets x three timeout triples; zero probes to removed/replaced/rejected targets in the settle window", "3 C17", "stateless model checking (controlled scheduler, preemption-bounded, virtual clock) of the implementation against a reference timing simulator", S_NOTE),
}
checks = []
for pid, (eng, cat, text, ref, tech, note) in sorted(CHECKS.items()):
    checks.append({
        "property_id": pid,
        "quick_cmd": "./check %s quick" % pid,
        "thorough_cmd": "./check %s thorough" % pid,
        "evidence_file": "/verif/evidence/%s.json" % pid,
        "replay_cmd_template": "./check replay {path}",
        "engine": eng,
        "level_claimed": {"category": cat, "text": text, "design_ref": "DESIGN.md section " + ref},
        "level_note": note,
        "technique": tech,
    })
na = [{"property_id": p["id"], "reason": "check not built yet (work in progress; planned in DESIGN.md section 3)"} for p in props if p["id"] not in CHECKS]
for c in checks:
    if c["property_id"] == "C20":
        c["replay_cmd_template"] = "./check C20 quick   # (the replay file names the failing flag/environment combination)"
m = {
 "version": 1,
 "setup_cmd": "./setup.sh",
 "hooks": {"guard": "verif",
           "enable": "no source hooks: each check instruments /repo's working tree with tools/instrument and builds it with `go1.26.8 test -c -tags verif -overlay build/overlay.json` (DESIGN.md 2.1); /repo is never written",
           "baseline_off_cmd": "cd /repo && go test -vet=off -count=1 ./...",
           "source_commits": [], "add_only": True},
 "engines": [
  {"name": "S", "path": "shim/vsched + harness/engine_s.go", "serves_properties": [p for p, c in sorted(CHECKS.items()) if "S" in c[0]], "kind_free_text": "controlled scheduler in a synctest bubble; stateless deviation-bounded DFS over the real implementation; 16 worker processes"},
  {"name": "H", "path": "harness/h_engine.go + harness/h_model.go", "serves_properties": [p for p, c in sorted(CHECKS.items()) if "H" in c[0]], "kind_free_text": "explicit enumeration of command histories on fresh real routers, reference model as oracle"},
  {"name": "E/F", "path": "harness/engine_e.go", "serves_properties": [p for p, c in sorted(CHECKS.items()) if "E" in c[0] or "F" in c[0]], "kind_free_text": "exhaustive small-scope enumeration of inputs / fault points through Server.buildHandler, real http.Transport and in-memory scripted targets"},
 ],
 "checks": checks,
 "not_applicable": na,
 "notes": "exit 0 = held on everything explored (KNOWN-FINDING lines for entries of known_findings.json), exit 1 = VIOLATION, exit 2 = infrastructure error of the harness. Replays: ./check replay <file>.",
}
json.dump(m, open(os.path.join(V, "MANIFEST.json"), "w"), indent=1)
print("checks:", len(checks), "not_applicable:", len(na))
