#!/usr/bin/env python3
"""Regenerates /verif/MANIFEST.json from the table below."""
import json, os
V = "/verif"
props = [json.loads(l) for l in open(os.path.join(V, "properties.jsonl"))]
S_NOTE = ("real implementation, instrumented by tools/instrument (sync->vsync, go->vsched.Go, os file ops->vos, http.Transport over memnet, sorted map ranges, source-order select polling), "
          "linked against the go1.26.8 standard library; virtual time and quiescence by testing/synctest; scheduling points at synchronisation operations only (complete for data-race-free code); "
          "bounds, alphabets and configuration lists as stated in the evidence")
H_NOTE = ("real Router/CommandHandler driven by command histories on fresh instances under the default schedule of the controlled scheduler; the reference model is an oracle written from the property statement; "
          "targets are scripted in-memory HTTP servers (memnet); go1.26.8 standard library")
CHECKS = {
 "C01": ("S", "model_checking", "exhaustive exploration of thread schedules of the real deploy / rollout-deploy code, within a deviation bound, over an enumerated product of probe scripts and client placements; oracle on target-side logs (O1-O5)", "3 C01", "stateless model checking (controlled scheduler, deviation-bounded DFS) of the implementation", S_NOTE),
 "C02": ("S", "model_checking", "exhaustive exploration of schedules of redeploy vs concurrent and in-flight requests (deviation bound 2 quick / 3 thorough, no stalls); every response must be the unmodified 200 of a target of the old or new set", "3 C02", "stateless model checking (controlled scheduler, deviation-bounded DFS) of the implementation", S_NOTE),
 "C03": ("S", "model_checking", "exhaustive exploration of schedules of redeploy/pause/stop vs in-flight multisets and late arrivals; oracle Q1-Q6 on target-side activity spans and exact virtual time", "3 C03", "stateless model checking (controlled scheduler, deviation-bounded DFS) of the implementation", S_NOTE),
 "C05": ("S+H", "model_checking", "engine S: racing deploys with overlapping bindings, every schedule within the bound; engine H: every deploy/redeploy/remove history up to the depth bound against a reference ownership map and routing matrix", "3 C05", "stateless model checking of racing deploys + explicit enumeration of command histories against a reference model", S_NOTE + "; " + H_NOTE),
 "C06": ("H", "model_checking", "from every configuration reached by building histories up to the depth bound, every failing command of every error class; before/after comparison of probe matrix, list and state file; probe silence for rejected targets", "3 C06", "explicit-state enumeration of command histories on the real router with a reference model and a before/after differential oracle", H_NOTE),
 "C07": ("S", "model_checking", "exhaustive exploration of schedules (incl. stalls, so each request's own max-pause timer can land before or after the next command) of pause/resume/stop/redeploy sequences vs requests; each request must be explained by some arrival point of a sequential gate model", "3 C07", "stateless model checking (controlled scheduler) + per-request linearisation against a sequential gate model", S_NOTE),
 "C09": ("S", "model_checking", "exhaustive exploration of schedules of probe completions vs request bursts over enumerated per-target probe scripts; oracle: membership in the healthy set derived from probe results, 503 when empty, strict rotation, probe cadence", "3 C09", "stateless model checking (controlled scheduler, deviation-bounded DFS) of the implementation", S_NOTE),
 "C11": ("H", "model_checking", "restart is a transition of the history search; every history up to the depth bound containing a restart; the reference model is unchanged by restart, so every later observation (routing, TLS policy, gate incl. held-request drill, rollout split, options, probed targets, list) must equal the model", "3 C11", "explicit-state enumeration of command histories with restart transitions on the real router against a reference model", H_NOTE),
 "C17": ("S", "model_checking", "stall bound 0 so that virtual elapsed time is exact; return time of every command EQUAL to a reference simulator (probe ticker, first 2xx, remaining in-flight time) over probe scripts x in-flight sets x three timeout triples; zero probes to removed/replaced/rejected targets in the settle window", "3 C17", "stateless model checking (controlled scheduler, preemption-bounded, virtual clock) of the implementation against a reference timing simulator", S_NOTE),
}
checks = []
for pid, (eng, cat, text, ref, tech, note) in sorted(CHECKS.items()):
    checks.append({
        "property_id": pid,
        "quick_cmd": "./check %s quick" % pid,
        "thorough_cmd": "./check %s thorough" % pid,
        "evidence_file": "/verif/evidence/%s.json" % pid,
        "replay_cmd_template": "./check replay {path}",
        "engine": eng,
        "level_claimed": {"category": cat, "text": text, "design_ref": "DESIGN.md section " + ref},
        "level_note": note,
        "technique": tech,
    })
na = [{"property_id": p["id"], "reason": "check not built yet (work in progress; planned in DESIGN.md section 3)"} for p in props if p["id"] not in CHECKS]
m = {
 "version": 1,
 "setup_cmd": "./setup.sh",
 "hooks": {"guard": "verif",
           "enable": "no source hooks: each check instruments /repo's working tree with tools/instrument and builds it with `go1.26.8 test -c -tags verif -overlay build/overlay.json` (DESIGN.md 2.1); /repo is never written",
           "baseline_off_cmd": "cd /repo && go test -vet=off -count=1 ./...",
           "source_commits": [], "add_only": True},
 "engines": [
  {"name": "S", "path": "shim/vsched + harness/engine_s.go", "serves_properties": [p for p, c in sorted(CHECKS.items()) if "S" in c[0]], "kind_free_text": "controlled scheduler in a synctest bubble; stateless deviation-bounded DFS over the real implementation; 16 worker processes"},
  {"name": "H", "path": "harness/h_engine.go + harness/h_model.go", "serves_properties": [p for p, c in sorted(CHECKS.items()) if "H" in c[0]], "kind_free_text": "explicit enumeration of command histories on fresh real routers, reference model as oracle"},
 ],
 "checks": checks,
 "not_applicable": na,
 "notes": "exit 0 = held on everything explored (KNOWN-FINDING lines for entries of known_findings.json), exit 1 = VIOLATION, exit 2 = infrastructure error of the harness. Replays: ./check replay <file>.",
}
json.dump(m, open(os.path.join(V, "MANIFEST.json"), "w"), indent=1)
print("checks:", len(checks), "not_applicable:", len(na))
