#!/bin/bash
# run_all.sh <tier>: every check once; one summary line each
tier=${1:-quick}
cd /verif
for c in C01 C02 C03 C04 C05 C06 C07 C08 C09 C10 C11 C12 C13 C14 C15 C16 C17 C18 C19 C20; do
  s=$(date +%s)
  out=$(./check $c $tier 2>&1); rc=$?
  e=$(( $(date +%s) - s ))
  echo "$c rc=$rc ${e}s $(echo "$out" | grep -c '^KNOWN-FINDING') known | $(echo "$out" | grep -E '^(VIOLATION|INFRA)' | head -3 | tr '\n' ' ' | cut -c1-200) | $(echo "$out" | tail -1 | cut -c1-150)"
done
