#!/bin/bash
# try_seed.sh <seed-dir-with-patch.diff> <tier> <check>...  : apply the seeded change to /repo, run checks, undo.
p=$1; tier=$2; shift 2
cd /repo || exit 2
if ! git diff --quiet; then echo "/repo has uncommitted changes"; exit 2; fi
git apply "$p/patch.rebased.diff" 2>/dev/null || git apply "$p/patch.diff" || { echo "patch does not apply to current /repo"; exit 2; }
trap 'git -C /repo checkout -- . ' EXIT
cd /verif
for c in "$@"; do
  ./check $c $tier 2>&1 | grep -E "^(VIOLATION|KNOWN-FINDING|INFRA|C[0-9]+ )|signature" | cut -c1-300
  echo "   -> $c exit=${PIPESTATUS[0]}"
done
