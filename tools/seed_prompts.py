#!/usr/bin/env python3
"""seed_prompts.py <suffix> <Cxx>...: write the sub-agent prompts for a new round of seeded changes to
/tmp/seed/prompts/<Cxx>-<suffix>.txt. A prompt contains only the property text, the path of the agent's own
scratch worktree and the ideas earlier seeds of that property already used (nothing else from /verif)."""
import json, sys, os, glob
props = {json.loads(l)["id"]: json.loads(l) for l in open('/verif/properties.jsonl')}
T = '''You are helping test a verification framework by writing a *seeded defect* for the Go project basecamp/kamal-proxy (a small HTTP reverse proxy for zero-downtime deploys). You have your own scratch git worktree of the project at {wt} . Work ONLY inside that directory. Do NOT read or touch /repo or /verif or any other worktree under /tmp/seed. The sandbox has no network; every shell call that runs go needs:  export GOFLAGS=-mod=mod GOPROXY=off   (do NOT set GOSUMDB=off; the default `go` auto-switches to the cached go1.24.2 toolchain).

The property of kamal-proxy that your change must BREAK:

  Title: {title}
  Statement: {statement}
  Quantified over: {quant}

Task: make a realistic change to the non-test Go sources of the project in {wt} (the kind of bug a plausible refactor, optimisation or "simplification" could introduce) such that
 1. the project still compiles (`go build ./... && go vet ./internal/... || true`),
 2. the project's existing test suite still passes, unedited:  cd {wt} && go test -vet=off -count=1 ./...   (run it 3 times; NOTE the unmodified suite itself has a rare pre-existing flake in timing-sensitive tests such as TestTarget_CancelledRequestsHaveStatus499 - if you see a failure, re-run that test alone on the ORIGINAL code to see whether it is pre-existing; your change must not make failures more frequent),
 3. the property above is violated by the changed code, but ONLY under something specific: a particular thread interleaving, a fault or crash at a particular point, a multi-step sequence of commands, an unusual input, or two cooperating code sites that each look fine alone. It must NOT be a change that ordinary use or a casual smoke test would expose at once. Prefer subtle: an ordering change, a lock scope change, a check moved after an effect, a boundary condition, a state not restored/copied, a missed cleanup on one error path, etc. Keep the change small (a few lines to ~30 lines).
 4. you provide a demonstration: a new Go test file (package server, placed at {wt}/internal/server/seed_demo_test.go, test name TestSeedDemo...; for CLI properties package cmd under internal/cmd) that FAILS (deterministically or at least very reliably, e.g. by forcing the interleaving with sleeps/hooks in the test only, or looping) on the changed code and PASSES on the original code. Verify both: run the demo with your change; then save the source change with `git diff -- . ':!*seed_demo_test.go' > seed/my.diff` and undo it with `git apply -R seed/my.diff` (keep the demo), run the demo again to see it pass, then re-apply with `git apply seed/my.diff`. NEVER use `git stash` (the stash is shared between worktrees).

Read the source first (internal/server/*.go mainly; README.md for behaviour). Think about which mechanism makes the property hold today, then break that mechanism subtly.

When finished leave in {wt}/seed/ :
  - patch.diff   : `git diff` of the NON-test source changes only (must apply with `git apply` to a clean checkout of the same commit)
  - demo_test.go : a copy of your demonstration test
  - meta.json    : {{"property": "{pid}", "summary": "<one paragraph: what was changed>", "needs": "<what specific interleaving / fault / sequence / input is needed for the violation to manifest>", "ran": ["<commands you ran and their outcome>"]}}
Do not commit anything. Your final message should summarise the change, what it needs to manifest, and the demo results with and without the change (actual command output tails).'''
FOCUS = [
    "two operator commands overlapping in time (issued by different operators, e.g. a deploy while a pause, stop, remove or rollout command is still running)",
    "a timing boundary: a timeout, interval or deadline landing just before or just after another event, or two timers with different lengths being confused",
    "an error or cleanup path: a failing command, a failing target or an aborted request leaving something behind, or cleaning up something that is still in use",
    "an optimisation: a cache, a pool, a reused buffer or object, an atomic flag or a lock-free fast path that is correct for one request or command at a time",
    "state that has to survive or be rebuilt: copying a service for a redeploy, restoring from the state file, or re-deriving a table after a change",
    "an unusual but legal input shape (header, path, host, cookie, body chunking or flag combination) that takes a rarely used branch",
]
suffix = sys.argv[1]
os.makedirs('/tmp/seed/prompts', exist_ok=True)
for pid in sys.argv[2:]:
    p = props[pid]
    wt = f'/tmp/seed/{pid}-{suffix}'
    s = T.format(wt=wt, title=p['title'], statement=p['statement'], quant=p['quantifier']['text'], pid=pid)
    used = []
    for f in sorted(glob.glob(f'/verif/seeded/{pid}-*/meta.json')):
        used.append(json.load(open(f))['summary'].replace('\n', ' ')[:350])
    if used:
        s += "\n\nAdditional constraint: earlier seeded defects for this property already used the following ideas (each quoted from its summary, truncated):\n" + "\n".join(' - "%s..."' % u for u in used) + "\nDo NOT reuse them or close variants; find a different mechanism, preferably in a different function or file" + (", and preferably one that needs a specific thread interleaving or timing (not just a command sequence) to manifest.\n" if 'schedules' in p['quantifier'].get('over', []) else ".\n")
    if os.environ.get('SEED_FOCUS'):
        k = (int(pid[1:]) + int(os.environ['SEED_FOCUS'])) % len(FOCUS)
        s += "\nSuggested direction for this round (use it if it fits the property, otherwise pick your own): " + FOCUS[k] + ".\n"
    open(f'/tmp/seed/prompts/{pid}-{suffix}.txt', 'w').write(s)
    print(pid, len(s))
