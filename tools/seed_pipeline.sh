#!/bin/bash
# seed_pipeline.sh <seed-id>: one new seeded change from a sub-agent's worktree /tmp/seed/<id>: confirm it
# (verify_seed.sh), then run its property's quick check against it in a scratch worktree (SEED_WT=1), rows
# written to /tmp/reg-parts/<id>.txt (merge with tools/seed_merge.sh). Several of these may run side by side.
id=$1
mkdir -p /tmp/reg-parts
/verif/tools/verify_seed.sh /tmp/seed/$id/seed $id 2>&1 | tail -3
[ -d /verif/seeded/$id ] || { echo "$id not confirmed"; exit 1; }
SEED_WT=1 REG_OUT=/tmp/reg-parts/$id.txt /verif/tools/seed_regression.sh quick $id 2>&1 | tail -4
