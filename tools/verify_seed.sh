#!/bin/bash
# verify_seed.sh <seed-src-dir containing patch.diff demo_test.go meta.json> <name>
# Confirms in a scratch worktree: patch applies, builds, baseline passes with it,
# demo fails with it and passes without. Copies into /verif/seeded/<name>/ on success.
set -u
src=$1; name=$2
export GOFLAGS=-mod=mod GOPROXY=off
wt=/tmp/vseed-$name
git -C /repo worktree remove --force $wt 2>/dev/null; rm -rf $wt
git -C /repo worktree add -q --detach $wt HEAD || exit 2
out=/tmp/vseed-$name.log; : > $out
ok=1
( cd $wt && { [ -f $src/patch.rebased.diff ] && git apply $src/patch.rebased.diff || git apply $src/patch.diff; } ) >>$out 2>&1 || { echo "$name: patch does not apply"; ok=0; }
if [ $ok = 1 ]; then
  ( cd $wt && go build ./... ) >>$out 2>&1 || { echo "$name: build fails"; ok=0; }
fi
base_pass=0
if [ $ok = 1 ]; then
  # The pinned suite is itself flaky under load (a 503 race, DESIGN C02(a)); a
  # test counts as passing if it passes in the full run or in one of 6 re-runs alone.
  ( cd $wt && go test -vet=off -count=1 -json ./... ) > /tmp/vseed-$name.json 2>>$out
  failed=$(python3 - /tmp/vseed-$name.json <<'PY'
import json,sys
res={}
for l in open(sys.argv[1]):
    try: e=json.loads(l)
    except Exception: continue
    if e.get("Test") and e.get("Action") in ("pass","fail"):
        res[(e["Package"],e["Test"])]=e["Action"]
bad=[t for (p,t),a in res.items() if a=="fail" and "/" not in t]
print(" ".join(sorted(set(bad))))
print(len(res),file=sys.stderr)
PY
)
  still=""
  for t in $failed; do
    pass=0
    for i in 1 2 3 4 5 6; do
      if ( cd $wt && go test -vet=off -count=1 -run "^$t\$" ./internal/server/ ) >>$out 2>&1; then pass=1; break; fi
    done
    [ $pass = 1 ] || still="$still $t"
  done
  if [ -z "$still" ]; then base_pass=1; else echo "$name: baseline tests fail with the patch:$still"; ok=0; fi
  echo "$name: flaky-in-full-run: [$failed]" >>$out
fi
with=; without=
if [ $ok = 1 ]; then
  cp $src/demo_test.go $wt/${DEMO_PKG:-internal/server}/seed_demo_test.go
  wf=0; for i in 1 2 3; do ( cd $wt && go test -vet=off -count=1 -run 'TestSeedDemo' ./${DEMO_PKG:-internal/server}/ ) >>$out 2>&1 || wf=$((wf+1)); done
  ( cd $wt && { [ -f $src/patch.rebased.diff ] && git apply -R $src/patch.rebased.diff || git apply -R $src/patch.diff; } ) >>$out 2>&1
  wp=0; for i in 1 2 3; do ( cd $wt && go test -vet=off -count=1 -run 'TestSeedDemo' ./${DEMO_PKG:-internal/server}/ ) >>$out 2>&1 && wp=$((wp+1)); done
  echo "$name: baseline_passes=$base_pass demo_fails_with_patch=$wf/3 demo_passes_without=$wp/3"
  if [ $wf = 3 ] && [ $wp = 3 ]; then
    mkdir -p /verif/seeded/$name
    cp $src/patch.diff $src/demo_test.go /verif/seeded/$name/
    [ -f $src/patch.rebased.diff ] && cp $src/patch.rebased.diff /verif/seeded/$name/
    python3 - "$src/meta.json" "/verif/seeded/$name/meta.json" "$base_pass" "$wf" "$wp" <<'PY'
import json,sys
m=json.load(open(sys.argv[1]))
m["confirmed"]={"by":"tools/verify_seed.sh in a scratch worktree of /repo HEAD","patch_applies":True,"builds":True,
  "baseline_suite_passes_with_patch":"yes (tests failing in the full run, if any, pass when re-run alone: pre-existing 503 flake)","demo_fails_with_patch":sys.argv[4]+"/3","demo_passes_without_patch":sys.argv[5]+"/3"}
json.dump(m,open(sys.argv[2],"w"),indent=1)
PY
  else ok=0; fi
fi
git -C /repo worktree remove --force $wt 2>/dev/null; rm -rf $wt
[ $ok = 1 ] && echo "$name: CONFIRMED" || echo "$name: REJECTED (see $out)"
