#!/bin/sh
# MANIFEST.setup_cmd: build the instrumenter and the instrumented check binary
# from files on disk only (offline); warms the build cache under /verif/.cache.
set -e
cd "$(dirname "$0")"
./check build >/dev/null
echo "setup ok"
