#!/usr/bin/env python3
"""Live confirmation of the open C15 finding (real binary, real time, about 55 s):
a target that accepts the request head and then reads nothing, --target-timeout 2s, a 64 MB upload.
Usage: python3 known_replays/C15_mute_target_large_upload_live.py [path of a built kamal-proxy binary]
Prints one line per request; a small upload gets its 504 after 2.0 s, the large one is not answered
before the client gives up 25 s later (with and without --buffer-requests)."""
import glob, http.client, os, socket, sys, threading, time
sys.path.insert(0, os.path.join(os.path.dirname(os.path.abspath(__file__)), "..", "cli"))
import c20

binp = sys.argv[1] if len(sys.argv) > 1 else sorted(glob.glob("/verif/build/kamal-proxy-*"))[0]
srv = socket.socket()
srv.setsockopt(socket.SOL_SOCKET, socket.SO_REUSEADDR, 1)
srv.bind(("127.0.0.1", 0))
srv.listen(64)
port = srv.getsockname()[1]
keep = []


def serve():
    while True:
        c, _ = srv.accept()

        def h(c=c):
            buf = b""
            while b"\r\n\r\n" not in buf:
                d = c.recv(1)
                if not d:
                    return
                buf += d
            if b" /up" in buf.split(b"\r\n")[0]:
                c.sendall(b"HTTP/1.1 200 OK\r\nContent-Length: 2\r\nConnection: close\r\n\r\nok")
                c.close()
            else:
                keep.append(c)  # mute: the body is never read, nothing is answered
        threading.Thread(target=h, daemon=True).start()


threading.Thread(target=serve, daemon=True).start()
scratch = "/dev/shm/kpv-mute-live"
os.makedirs(scratch, exist_ok=True)
px = c20.Proxy(binp, scratch)
try:
    for name, extra in (("m1", []), ("m2", ["--buffer-requests"])):
        rc, out = px.cli("deploy", name, "--target", "127.0.0.1:%d" % port, "--host", name + ".example.com", "--target-timeout", "2s", *extra)
        print("deploy", name, extra, "exit", rc)
        for size in (10, 64 << 20):
            t0 = time.time()
            try:
                c = http.client.HTTPConnection("127.0.0.1", px.http, timeout=25)
                c.request("POST", "/x", body=b"x" * size, headers={"Host": name + ".example.com"})
                r = c.getresponse()
                r.read()
                print(name, "upload of", size, "bytes: status", r.status, "after %.1fs" % (time.time() - t0))
            except Exception as e:  # noqa
                print(name, "upload of", size, "bytes: NOT ANSWERED,", repr(e), "after %.1fs" % (time.time() - t0))
finally:
    px.stop()
