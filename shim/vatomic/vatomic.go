// Package vatomic replaces "sync/atomic" in the instrumented code under test. Every operation is a scheduling Point
// (always enabled) followed by the real atomic operation, so that the search can place another thread between a
// check and the atomic publication that follows it (lock-free fast paths, flags, compare-and-swap guards). Without a
// scheduler, and for unmanaged goroutines, the Point is a no-op.
package vatomic

import (
	"sync/atomic"

	"github.com/basecamp/kamal-proxy/internal/verif/vsched"
)

func pt(obj any) { vsched.Point(vsched.KAtomic, obj, nil) }

type Bool struct{ v atomic.Bool }

func (x *Bool) Load() bool                        { pt(x); return x.v.Load() }
func (x *Bool) Store(val bool)                    { pt(x); x.v.Store(val) }
func (x *Bool) Swap(new bool) bool                { pt(x); return x.v.Swap(new) }
func (x *Bool) CompareAndSwap(old, new bool) bool { pt(x); return x.v.CompareAndSwap(old, new) }

type Int32 struct{ v atomic.Int32 }

func (x *Int32) Load() int32                        { pt(x); return x.v.Load() }
func (x *Int32) Store(val int32)                    { pt(x); x.v.Store(val) }
func (x *Int32) Swap(new int32) int32               { pt(x); return x.v.Swap(new) }
func (x *Int32) CompareAndSwap(old, new int32) bool { pt(x); return x.v.CompareAndSwap(old, new) }
func (x *Int32) Add(d int32) int32                  { pt(x); return x.v.Add(d) }
func (x *Int32) And(m int32) int32                  { pt(x); return x.v.And(m) }
func (x *Int32) Or(m int32) int32                   { pt(x); return x.v.Or(m) }

type Int64 struct{ v atomic.Int64 }

func (x *Int64) Load() int64                        { pt(x); return x.v.Load() }
func (x *Int64) Store(val int64)                    { pt(x); x.v.Store(val) }
func (x *Int64) Swap(new int64) int64               { pt(x); return x.v.Swap(new) }
func (x *Int64) CompareAndSwap(old, new int64) bool { pt(x); return x.v.CompareAndSwap(old, new) }
func (x *Int64) Add(d int64) int64                  { pt(x); return x.v.Add(d) }
func (x *Int64) And(m int64) int64                  { pt(x); return x.v.And(m) }
func (x *Int64) Or(m int64) int64                   { pt(x); return x.v.Or(m) }

type Uint32 struct{ v atomic.Uint32 }

func (x *Uint32) Load() uint32                        { pt(x); return x.v.Load() }
func (x *Uint32) Store(val uint32)                    { pt(x); x.v.Store(val) }
func (x *Uint32) Swap(new uint32) uint32              { pt(x); return x.v.Swap(new) }
func (x *Uint32) CompareAndSwap(old, new uint32) bool { pt(x); return x.v.CompareAndSwap(old, new) }
func (x *Uint32) Add(d uint32) uint32                 { pt(x); return x.v.Add(d) }
func (x *Uint32) And(m uint32) uint32                 { pt(x); return x.v.And(m) }
func (x *Uint32) Or(m uint32) uint32                  { pt(x); return x.v.Or(m) }

type Uint64 struct{ v atomic.Uint64 }

func (x *Uint64) Load() uint64                        { pt(x); return x.v.Load() }
func (x *Uint64) Store(val uint64)                    { pt(x); x.v.Store(val) }
func (x *Uint64) Swap(new uint64) uint64              { pt(x); return x.v.Swap(new) }
func (x *Uint64) CompareAndSwap(old, new uint64) bool { pt(x); return x.v.CompareAndSwap(old, new) }
func (x *Uint64) Add(d uint64) uint64                 { pt(x); return x.v.Add(d) }
func (x *Uint64) And(m uint64) uint64                 { pt(x); return x.v.And(m) }
func (x *Uint64) Or(m uint64) uint64                  { pt(x); return x.v.Or(m) }

type Uintptr struct{ v atomic.Uintptr }

func (x *Uintptr) Load() uintptr                        { pt(x); return x.v.Load() }
func (x *Uintptr) Store(val uintptr)                    { pt(x); x.v.Store(val) }
func (x *Uintptr) Swap(new uintptr) uintptr             { pt(x); return x.v.Swap(new) }
func (x *Uintptr) CompareAndSwap(old, new uintptr) bool { pt(x); return x.v.CompareAndSwap(old, new) }
func (x *Uintptr) Add(d uintptr) uintptr                { pt(x); return x.v.Add(d) }

type Pointer[T any] struct{ v atomic.Pointer[T] }

func (x *Pointer[T]) Load() *T                        { pt(x); return x.v.Load() }
func (x *Pointer[T]) Store(val *T)                    { pt(x); x.v.Store(val) }
func (x *Pointer[T]) Swap(new *T) *T                  { pt(x); return x.v.Swap(new) }
func (x *Pointer[T]) CompareAndSwap(old, new *T) bool { pt(x); return x.v.CompareAndSwap(old, new) }

type Value struct{ v atomic.Value }

func (x *Value) Load() any                        { pt(x); return x.v.Load() }
func (x *Value) Store(val any)                    { pt(x); x.v.Store(val) }
func (x *Value) Swap(new any) any                 { pt(x); return x.v.Swap(new) }
func (x *Value) CompareAndSwap(old, new any) bool { pt(x); return x.v.CompareAndSwap(old, new) }

// function forms on plain words

func AddInt32(a *int32, d int32) int32     { pt(a); return atomic.AddInt32(a, d) }
func AddInt64(a *int64, d int64) int64     { pt(a); return atomic.AddInt64(a, d) }
func AddUint32(a *uint32, d uint32) uint32 { pt(a); return atomic.AddUint32(a, d) }
func AddUint64(a *uint64, d uint64) uint64 { pt(a); return atomic.AddUint64(a, d) }
func LoadInt32(a *int32) int32             { pt(a); return atomic.LoadInt32(a) }
func LoadInt64(a *int64) int64             { pt(a); return atomic.LoadInt64(a) }
func LoadUint32(a *uint32) uint32          { pt(a); return atomic.LoadUint32(a) }
func LoadUint64(a *uint64) uint64          { pt(a); return atomic.LoadUint64(a) }
func StoreInt32(a *int32, v int32)         { pt(a); atomic.StoreInt32(a, v) }
func StoreInt64(a *int64, v int64)         { pt(a); atomic.StoreInt64(a, v) }
func StoreUint32(a *uint32, v uint32)      { pt(a); atomic.StoreUint32(a, v) }
func StoreUint64(a *uint64, v uint64)      { pt(a); atomic.StoreUint64(a, v) }
func SwapInt32(a *int32, v int32) int32    { pt(a); return atomic.SwapInt32(a, v) }
func SwapInt64(a *int64, v int64) int64    { pt(a); return atomic.SwapInt64(a, v) }
func SwapUint32(a *uint32, v uint32) uint32 {
	pt(a)
	return atomic.SwapUint32(a, v)
}
func SwapUint64(a *uint64, v uint64) uint64 {
	pt(a)
	return atomic.SwapUint64(a, v)
}
func CompareAndSwapInt32(a *int32, o, n int32) bool {
	pt(a)
	return atomic.CompareAndSwapInt32(a, o, n)
}
func CompareAndSwapInt64(a *int64, o, n int64) bool {
	pt(a)
	return atomic.CompareAndSwapInt64(a, o, n)
}
func CompareAndSwapUint32(a *uint32, o, n uint32) bool {
	pt(a)
	return atomic.CompareAndSwapUint32(a, o, n)
}
func CompareAndSwapUint64(a *uint64, o, n uint64) bool {
	pt(a)
	return atomic.CompareAndSwapUint64(a, o, n)
}
