// Package vsched is the controlled scheduler of the verif harness (engine S).
//
// It runs inside a testing/synctest bubble. The root goroutine of the bubble is
// the scheduler; "managed threads" are goroutines created through Go (the
// instrumenter rewrites every `go` statement of the code under test to it).
// A managed thread parks at every Point (lock acquisition, WaitGroup wait, file
// operation, harness-defined points); the scheduler waits for quiescence
// (synctest.Wait), computes the enabled parked threads and picks one according
// to a replayed list of deviations from the default schedule, or lets virtual
// time pass ("clock").
//
// With no scheduler installed (Cur()==nil) everything degrades to plain
// goroutines: Go(f) is `go f()`, Point is a no-op.
package vsched

import (
	"cmp"
	"fmt"
	"iter"
	"runtime"
	"slices"
	"sort"
	"strings"
	"sync"
	"sync/atomic"
	"testing/synctest"
	"time"
)

// ---------------------------------------------------------------------------
// goroutine identity

// GetG returns the address of the running goroutine's g; it is used only as
// an identity while the goroutine is alive. It is implemented in assembly in
// package server (an overlay cannot add assembly to a directory that does not
// exist on disk) and injected at init time; the fallback parses runtime.Stack.
var GetG func() uintptr

func goid() uint64 {
	if GetG != nil {
		return uint64(GetG())
	}
	var buf [40]byte
	n := runtime.Stack(buf[:], false)
	var id uint64
	for i := 10; i < n; i++ {
		c := buf[i]
		if c < '0' || c > '9' {
			break
		}
		id = id*10 + uint64(c-'0')
	}
	return id
}

// ---------------------------------------------------------------------------

type Kind uint8

const (
	KStart Kind = iota
	KLock
	KRLock
	KWLockAnnounce
	KWLock
	KWait
	KCond
	KFile
	KHarness
	KChoice
	KAtomic
	KSignal
)

var kindNames = [...]string{"start", "lock", "rlock", "wlock-announce", "wlock", "wg-wait", "cond", "file", "harness", "choice", "atomic", "signal"}

func (k Kind) String() string { return kindNames[k] }

type Thread struct {
	Name       string
	s          *Sched
	gid        uint64
	gate       chan struct{}
	parked     bool
	done       bool
	started    bool
	children   int
	kind       Kind
	obj        any
	site       string
	enabled    func() bool
	Sites      []string // last few synchronisation call sites (function names)
	Tag        string   // harness label (e.g. "cmd", "client", "probe")
	PanicVal   any
	PanicStk   string
	Steps      int
	killPoints int
	prio       int // deprioritisation stamp: a preempted thread goes behind the others
	alts       int // > 1: the thread is parked at a choice point with that many alternatives
	choice     int
}

type Dev struct {
	Step   int `json:"step"`
	Choice int `json:"choice"`
}

type Step struct {
	Menu        []string
	Choice      int
	Now         time.Duration
	Window      bool
	LastEnabled bool // the previously running thread was still enabled (menu[0] is it)
	Desc        string
	NThreads    int
}

type Sched struct {
	mu       sync.Mutex
	threads  []*Thread
	byGid    map[uint64]*Thread
	wake     chan struct{}
	devs     map[int]int
	Trace    []Step
	last     *Thread
	window   atomic.Bool
	killing  atomic.Bool
	start    time.Time
	Horizon  time.Duration
	StallCap time.Duration
	// Reverse flips the tie-break among equally ranked enabled threads (descending instead of ascending name):
	// a second default schedule from which the same deviation bounds reach other interleavings
	Reverse bool
	// results
	HorizonHit bool
	Deadlock   bool
	// Livelock: one virtual instant took more than MaxStepsPerInstant scheduling steps: some thread spins through
	// scheduling points without ever blocking or letting time pass. LivelockAt names the site it was last seen at.
	Livelock    bool
	LivelockAt  string
	BadReplay   string
	Leaked      []string
	StateHashes map[uint64]struct{}
	Fingerprint func() uint64 // optional extra state for the per-step fingerprint
	unmanagedGo int
	prioCounter int
	OnStep      func(s *Sched, st *Step)
	// per-step idle info: names of threads neither parked nor done at each step
	MaxThreads int
}

var cur atomic.Pointer[Sched]

func Cur() *Sched { return cur.Load() }

func New(devs []Dev, horizon time.Duration) *Sched {
	s := &Sched{
		byGid:       map[uint64]*Thread{},
		devs:        map[int]int{},
		Horizon:     horizon,
		StallCap:    5900 * time.Millisecond,
		StateHashes: map[uint64]struct{}{},
	}
	for _, d := range devs {
		s.devs[d.Step] = d.Choice
	}
	return s
}

func (s *Sched) Now() time.Duration { return time.Since(s.start) }

// SetWindow marks the part of the execution in which the search may branch.
func (s *Sched) SetWindow(on bool) { s.window.Store(on) }

func (s *Sched) Killing() bool { return s.killing.Load() }

// Kill switches to teardown mode: every parked thread is released and exits at
// its Point; threads reaching a harness Point exit there.
func (s *Sched) Kill() { s.killing.Store(true) }

func Killing() bool {
	s := cur.Load()
	return s != nil && s.killing.Load()
}

// CurrentThread returns the managed thread of the calling goroutine, or nil.
func CurrentThread() *Thread {
	s := cur.Load()
	if s == nil {
		return nil
	}
	g := goid()
	s.mu.Lock()
	t := s.byGid[g]
	s.mu.Unlock()
	return t
}

func (s *Sched) signal() {
	select {
	case s.wake <- struct{}{}:
	default:
	}
}

// Go starts f as a managed thread (or a plain goroutine without scheduler).
func Go(f func()) {
	s := cur.Load()
	if s == nil {
		go f()
		return
	}
	s.spawn(CurrentThread(), f, "")
}

// GoTagged is Go with a harness label.
func GoTagged(tag string, f func()) *Thread {
	s := cur.Load()
	if s == nil {
		go f()
		return nil
	}
	return s.spawn(CurrentThread(), f, tag)
}

func (s *Sched) spawn(parent *Thread, f func(), tag string) *Thread {
	t := &Thread{s: s, gate: make(chan struct{}, 1), Tag: tag}
	s.mu.Lock()
	if parent != nil {
		t.Name = fmt.Sprintf("%s.%d", parent.Name, parent.children)
		parent.children++
		if tag == "" {
			t.Tag = parent.Tag
		}
	} else if len(s.threads) == 0 {
		t.Name = "m"
	} else {
		t.Name = fmt.Sprintf("u%d", s.unmanagedGo)
		s.unmanagedGo++
	}
	t.parked = true
	t.kind = KStart
	t.site = "start"
	t.enabled = nil
	s.threads = append(s.threads, t)
	if len(s.threads) > s.MaxThreads {
		s.MaxThreads = len(s.threads)
	}
	s.mu.Unlock()
	if s.killing.Load() {
		// do not start new work during teardown
		s.mu.Lock()
		t.done = true
		t.parked = false
		s.mu.Unlock()
		if parent != nil {
			// a thread that is still spawning work is ended here (loops that only spawn never reach another point)
			runtime.Goexit()
		}
		return t
	}
	s.signal()
	go func() {
		t.gid = goid()
		s.mu.Lock()
		s.byGid[t.gid] = t
		s.mu.Unlock()
		defer func() {
			if r := recover(); r != nil {
				t.PanicVal = r
				buf := make([]byte, 8192)
				t.PanicStk = string(buf[:runtime.Stack(buf, false)])
			}
			s.mu.Lock()
			t.done = true
			t.parked = false
			delete(s.byGid, t.gid)
			s.mu.Unlock()
			s.signal()
		}()
		<-t.gate
		if s.killing.Load() {
			return
		}
		t.started = true
		f()
	}()
	return t
}

// callSite returns the name of the first function outside the shims on the
// stack (e.g. "(*LoadBalancer).claimTarget").
var (
	siteMu    sync.Mutex
	siteCache = map[uintptr]string{} // pc -> function name ("" = shim frame)
)

func callSite() string {
	var pcs [10]uintptr
	n := runtime.Callers(3, pcs[:])
	siteMu.Lock()
	defer siteMu.Unlock()
	for _, pc := range pcs[:n] {
		name, ok := siteCache[pc]
		if !ok {
			fr, _ := runtime.CallersFrames([]uintptr{pc}).Next()
			fn := fr.Function
			if fn == "" || strings.Contains(fn, "/internal/verif/") {
				name = ""
			} else {
				if i := strings.LastIndex(fn, "/"); i >= 0 {
					fn = fn[i+1:]
				}
				if i := strings.Index(fn, "."); i >= 0 {
					fn = fn[i+1:]
				}
				name = fn
			}
			siteCache[pc] = name
		}
		if name != "" {
			return name
		}
	}
	return "?"
}

// Point parks the calling managed thread until the scheduler selects it.
// enabled may be nil (always enabled). For unmanaged goroutines it is a no-op
// and returns false.
func Point(kind Kind, obj any, enabled func() bool) bool {
	s := cur.Load()
	if s == nil {
		return false
	}
	t := CurrentThread()
	if t == nil {
		return false
	}
	if s.killing.Load() {
		if kind == KHarness {
			runtime.Goexit()
		}
		// a thread that keeps spinning through points during teardown never finishes by itself
		t.killPoints++
		if t.killPoints > 5000 {
			runtime.Goexit()
		}
		return true
	}
	site := callSite()
	s.mu.Lock()
	t.kind, t.obj, t.enabled, t.site = kind, obj, enabled, site
	t.parked = true
	t.Sites = append(t.Sites, site)
	if len(t.Sites) > 6 {
		t.Sites = t.Sites[len(t.Sites)-6:]
	}
	s.mu.Unlock()
	s.signal()
	<-t.gate
	if s.killing.Load() {
		runtime.Goexit()
	}
	return true
}

// Signal is the scheduling point the instrumenter puts in front of the synchronisation operations of the code under
// test that no shim intercepts: close of a channel and calls of context cancel functions (rewrite 7). Without it
// everything from a lock acquisition to the next one, a close in between included, would be one atomic step.
func Signal() { Point(KSignal, nil, nil) }

// HarnessPoint is a Point of kind KHarness with a label used as the site.
func HarnessPoint(label string) {
	s := cur.Load()
	if s == nil {
		return
	}
	t := CurrentThread()
	if t == nil {
		return
	}
	if s.killing.Load() {
		runtime.Goexit()
	}
	s.mu.Lock()
	t.kind, t.obj, t.enabled, t.site = KHarness, nil, nil, label
	t.parked = true
	s.mu.Unlock()
	s.signal()
	<-t.gate
	if s.killing.Load() {
		runtime.Goexit()
	}
}

// Choose is a choice point of the code under test itself (the instrumenter
// puts one in front of every blocking select: Go resolves a select with
// several ready cases randomly, and that choice has to be owned by the
// search). It returns the alternative picked by the scheduler, 0 by default.
func Choose(n int) int {
	s := cur.Load()
	if s == nil || n <= 1 {
		return 0
	}
	t := CurrentThread()
	if t == nil {
		return 0
	}
	if s.killing.Load() {
		// teardown: a thread about to block in a select would wait for timers nobody waits for any more
		runtime.Goexit()
	}
	site := callSite()
	s.mu.Lock()
	t.kind, t.obj, t.enabled, t.site = KChoice, nil, nil, site
	t.alts, t.choice = n, 0
	t.parked = true
	s.mu.Unlock()
	s.signal()
	<-t.gate
	if s.killing.Load() {
		runtime.Goexit()
	}
	return t.choice
}

type ThreadInfo struct {
	Name   string
	Tag    string
	Parked bool
	Done   bool
	Site   string
	Kind   Kind
}

// Threads returns a snapshot of all managed threads.
func (s *Sched) Threads() []ThreadInfo {
	s.mu.Lock()
	defer s.mu.Unlock()
	res := make([]ThreadInfo, 0, len(s.threads))
	for _, t := range s.threads {
		res = append(res, ThreadInfo{t.Name, t.Tag, t.parked, t.done, t.site, t.kind})
	}
	return res
}

func (s *Sched) Panics() []*Thread {
	s.mu.Lock()
	defer s.mu.Unlock()
	var res []*Thread
	for _, t := range s.threads {
		if t.PanicVal != nil {
			res = append(res, t)
		}
	}
	return res
}

// Run executes main as the first managed thread and schedules until every
// managed thread has finished. Must be called from the root goroutine of a
// synctest bubble.
// MaxStepsPerInstant bounds the scheduling steps taken without virtual time passing (see Sched.Livelock).
const MaxStepsPerInstant = 200000

func (s *Sched) Run(main func()) {
	var instant time.Duration = -1
	instantSteps := 0
	s.start = time.Now()
	s.wake = make(chan struct{}, 1) // must be created inside the bubble
	cur.Store(s)
	defer cur.Store(nil)
	s.spawn(nil, main, "main")
	killRounds := 0
	for {
		synctest.Wait()
		s.mu.Lock()
		alive := 0
		var parked []*Thread
		for _, t := range s.threads {
			if !t.done {
				alive++
				if t.parked {
					parked = append(parked, t)
				}
			}
		}
		if alive == 0 {
			s.mu.Unlock()
			// grace period: let timers of unmanaged helper goroutines (client
			// timeouts, watchdogs) expire so that they can exit with the bubble
			time.Sleep(3 * time.Minute)
			synctest.Wait()
			return
		}
		if s.killing.Load() {
			for _, t := range parked {
				t.parked = false
			}
			s.mu.Unlock()
			for _, t := range parked {
				t.gate <- struct{}{}
			}
			if len(parked) == 0 {
				killRounds++
				if killRounds > 2000 {
					s.mu.Lock()
					for _, t := range s.threads {
						if !t.done {
							s.Leaked = append(s.Leaked, t.Name+"@"+t.site)
						}
					}
					s.mu.Unlock()
					return
				}
				s.drainWake()
				select {
				case <-s.wake:
				case <-time.After(time.Second):
				}
			}
			continue
		}
		var en []*Thread
		for _, t := range parked {
			if t.enabled == nil || t.enabled() {
				en = append(en, t)
			}
		}
		sort.Slice(en, func(i, j int) bool {
			if en[i].prio != en[j].prio {
				return en[i].prio < en[j].prio
			}
			if s.Reverse {
				return en[i].Name > en[j].Name
			}
			return en[i].Name < en[j].Name
		})
		lastEnabled := false
		if s.last != nil {
			for i, t := range en {
				if t == s.last {
					copy(en[1:i+1], en[:i])
					en[0] = t
					lastEnabled = true
					break
				}
			}
		}
		now := time.Since(s.start)
		stepNo := len(s.Trace)
		type item struct {
			t   *Thread
			alt int
		}
		items := make([]item, 0, len(en)+2)
		for _, t := range en {
			items = append(items, item{t, 0})
		}
		for _, t := range en {
			if t.kind == KChoice {
				for a := 1; a < t.alts; a++ {
					items = append(items, item{t, a})
				}
			}
		}
		menu := make([]string, 0, len(items)+1)
		for _, it := range items {
			if it.alt == 0 {
				menu = append(menu, it.t.Name)
			} else {
				menu = append(menu, fmt.Sprintf("%s#%d", it.t.Name, it.alt))
			}
		}
		menu = append(menu, "clock")
		choice := 0
		if c, ok := s.devs[stepNo]; ok {
			if c < 0 || c >= len(menu) {
				s.BadReplay = fmt.Sprintf("step %d: choice %d out of range (menu %v)", stepNo, c, menu)
				s.mu.Unlock()
				s.killing.Store(true)
				continue
			}
			choice = c
		}
		st := Step{Menu: menu, Choice: choice, Now: now, Window: s.window.Load(), LastEnabled: lastEnabled, NThreads: alive}
		if choice < len(items) {
			t := items[choice].t
			st.Desc = t.Name + ":" + t.kind.String() + "@" + t.site
			if items[choice].alt > 0 {
				st.Desc += fmt.Sprintf("#%d", items[choice].alt)
			}
		} else {
			st.Desc = "clock"
		}
		s.Trace = append(s.Trace, st)
		// cheap control-state fingerprint
		{
			h := uint64(1469598103934665603)
			mix := func(x string) {
				for i := 0; i < len(x); i++ {
					h ^= uint64(x[i])
					h *= 1099511628211
				}
				h ^= 0xff
				h *= 1099511628211
			}
			for _, t := range s.threads {
				if t.done {
					mix("-")
				} else if t.parked {
					mix(t.site)
					mix(t.kind.String())
				} else {
					mix("~")
				}
			}
			mix(now.String())
			if s.Fingerprint != nil {
				h ^= s.Fingerprint()
				h *= 1099511628211
			}
			s.StateHashes[h] = struct{}{}
		}
		if s.OnStep != nil {
			s.OnStep(s, &s.Trace[len(s.Trace)-1])
		}
		if now > s.Horizon {
			s.HorizonHit = true
			s.mu.Unlock()
			s.killing.Store(true)
			continue
		}
		if now != instant {
			instant, instantSteps = now, 0
		}
		instantSteps++
		if instantSteps > MaxStepsPerInstant {
			s.Livelock, s.HorizonHit = true, true
			if choice < len(items) {
				s.LivelockAt = items[choice].t.Name + "@" + items[choice].t.site
			}
			s.mu.Unlock()
			s.killing.Store(true)
			continue
		}
		if choice < len(items) {
			t := items[choice].t
			if lastEnabled && t != en[0] {
				// delay-bounding flavour: the preempted thread yields to everybody else
				s.prioCounter++
				en[0].prio = s.prioCounter
			}
			t.choice = items[choice].alt
			t.alts = 0
			t.parked = false
			t.Steps++
			s.last = t
			s.mu.Unlock()
			t.gate <- struct{}{}
			continue
		}
		// clock: let virtual time pass until a managed thread parks or ends
		s.mu.Unlock()
		s.drainWake()
		remain := s.Horizon - now + time.Millisecond
		stalled := false
		if len(en) > 0 && s.StallCap > 0 && s.StallCap < remain {
			// a stall (clock chosen while threads are runnable) is finite: it
			// ends at the next managed wake-up or after StallCap
			remain = s.StallCap
			stalled = true
		}
		tm := time.NewTimer(remain)
		select {
		case <-s.wake:
			tm.Stop()
		case <-tm.C:
			if stalled {
				break
			}
			// horizon reached with nothing happening
			if len(parked) > 0 && len(en) == 0 {
				s.Deadlock = true
			}
			s.HorizonHit = true
			s.killing.Store(true)
		}
	}
}

func (s *Sched) drainWake() {
	select {
	case <-s.wake:
	default:
	}
}

// Blocked returns, for diagnostics, the parked-but-disabled threads.
func (s *Sched) Blocked() []string {
	s.mu.Lock()
	defer s.mu.Unlock()
	var res []string
	for _, t := range s.threads {
		if !t.done && t.parked && t.enabled != nil && !t.enabled() {
			res = append(res, t.Name+":"+t.kind.String()+"@"+t.site)
		}
	}
	return res
}

// KeyID, when set by the harness, names keys that have no natural order (pointers) by something stable across
// executions, e.g. the request id of a *http.Request.
var KeyID func(k any) (string, bool)

// Permuted iterates a map whose keys cannot be sorted (instrumenter rewrite 5b). Go's iteration order over such a
// map is random; the search owns it instead: the keys are ordered by KeyID and that order is rotated by a choice
// point (alternatives cost one deviation each), so that order-dependent behaviour is explored and replayable.
// Keys KeyID cannot name keep Go's order.
func Permuted[M ~map[K]V, K comparable, V any](m M) iter.Seq2[K, V] {
	return func(yield func(K, V) bool) {
		keys := make([]K, 0, len(m))
		for k := range m {
			keys = append(keys, k)
		}
		if len(keys) >= 2 && KeyID != nil {
			ids := make(map[K]string, len(keys))
			named := true
			for _, k := range keys {
				id, ok := KeyID(k)
				if !ok {
					named = false
					break
				}
				ids[k] = id
			}
			if named {
				slices.SortStableFunc(keys, func(a, b K) int { return cmp.Compare(ids[a], ids[b]) })
				n := len(keys)
				if n > 3 {
					n = 3
				}
				if c := Choose(n); c > 0 {
					keys = append(append([]K{}, keys[c:]...), keys[:c]...)
				}
			}
		}
		for _, k := range keys {
			v, ok := m[k]
			if !ok {
				continue
			}
			if !yield(k, v) {
				return
			}
		}
	}
}

// Sorted iterates a map in ascending key order (instrumenter rewrite 5).
func Sorted[M ~map[K]V, K cmp.Ordered, V any](m M) iter.Seq2[K, V] {
	return func(yield func(K, V) bool) {
		keys := make([]K, 0, len(m))
		for k := range m {
			keys = append(keys, k)
		}
		slices.Sort(keys)
		for _, k := range keys {
			v, ok := m[k]
			if !ok {
				continue
			}
			if !yield(k, v) {
				return
			}
		}
	}
}
