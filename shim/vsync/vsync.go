// Package vsync replaces "sync" in the instrumented code under test. Locks are
// logical (flags owned by the shim) so that a managed thread may park while
// holding one; acquisition operations are scheduling Points. Unmanaged
// goroutines (and every goroutine when no scheduler is installed) get ordinary
// blocking behaviour built on one global sync.Cond, which is durably blocking
// inside a synctest bubble.
package vsync

import (
	"sync"

	"github.com/basecamp/kamal-proxy/internal/verif/vsched"
)

type (
	Locker = sync.Locker
	Pool   = sync.Pool
)

// Map is sync.Map with every operation preceded by an always-enabled scheduling point: a lock-free cache on the
// request path is interleaved like any other shared structure.
type Map struct{ m sync.Map }

func mpt(m *Map) { vsched.Point(vsched.KAtomic, m, nil) }

func (m *Map) Load(key any) (any, bool)           { mpt(m); return m.m.Load(key) }
func (m *Map) Store(key, value any)               { mpt(m); m.m.Store(key, value) }
func (m *Map) Delete(key any)                     { mpt(m); m.m.Delete(key) }
func (m *Map) Clear()                             { mpt(m); m.m.Clear() }
func (m *Map) Range(f func(key, value any) bool)  { mpt(m); m.m.Range(f) }
func (m *Map) Swap(key, value any) (any, bool)    { mpt(m); return m.m.Swap(key, value) }
func (m *Map) LoadAndDelete(key any) (any, bool)  { mpt(m); return m.m.LoadAndDelete(key) }
func (m *Map) CompareAndDelete(key, old any) bool { mpt(m); return m.m.CompareAndDelete(key, old) }
func (m *Map) LoadOrStore(key, value any) (any, bool) {
	mpt(m)
	return m.m.LoadOrStore(key, value)
}
func (m *Map) CompareAndSwap(key, old, new any) bool {
	mpt(m)
	return m.m.CompareAndSwap(key, old, new)
}

var (
	gmu sync.Mutex
	gcv = sync.NewCond(&gmu)
)

// Stats counts operations (reported in evidence).
var Stats struct {
	Locks, RLocks, WLocks, Waits int64
}

// ---------------------------------------------------------------------------

type Mutex struct {
	locked bool
}

func (m *Mutex) Lock() {
	if vsched.Point(vsched.KLock, m, func() bool { gmu.Lock(); ok := !m.locked; gmu.Unlock(); return ok }) {
		gmu.Lock()
		if vsched.Killing() {
			m.locked = true
			gmu.Unlock()
			return
		}
		for m.locked { // cannot happen under the scheduler; be safe
			gcv.Wait()
		}
		m.locked = true
		Stats.Locks++
		gmu.Unlock()
		return
	}
	gmu.Lock()
	for m.locked && !vsched.Killing() {
		gcv.Wait()
	}
	m.locked = true
	gmu.Unlock()
}

func (m *Mutex) TryLock() bool {
	gmu.Lock()
	defer gmu.Unlock()
	if m.locked {
		return false
	}
	m.locked = true
	return true
}

func (m *Mutex) Unlock() {
	gmu.Lock()
	if !m.locked && !vsched.Killing() {
		gmu.Unlock()
		panic("sync: unlock of unlocked mutex")
	}
	m.locked = false
	gcv.Broadcast()
	gmu.Unlock()
}

// ---------------------------------------------------------------------------

type RWMutex struct {
	writer  bool
	readers int
	pending int // writers that announced themselves and wait for readers to leave
}

func (rw *RWMutex) Lock() {
	if vsched.Point(vsched.KWLockAnnounce, rw, nil) {
		gmu.Lock()
		rw.pending++
		gmu.Unlock()
		vsched.Point(vsched.KWLock, rw, func() bool { gmu.Lock(); ok := !rw.writer && rw.readers == 0; gmu.Unlock(); return ok })
		gmu.Lock()
		if !vsched.Killing() {
			for rw.writer || rw.readers > 0 {
				gcv.Wait()
			}
		}
		rw.pending--
		rw.writer = true
		Stats.WLocks++
		gmu.Unlock()
		return
	}
	gmu.Lock()
	rw.pending++
	for (rw.writer || rw.readers > 0) && !vsched.Killing() {
		gcv.Wait()
	}
	rw.pending--
	rw.writer = true
	gmu.Unlock()
}

func (rw *RWMutex) TryLock() bool {
	gmu.Lock()
	defer gmu.Unlock()
	if rw.writer || rw.readers > 0 {
		return false
	}
	rw.writer = true
	return true
}

func (rw *RWMutex) Unlock() {
	gmu.Lock()
	if !rw.writer && !vsched.Killing() {
		gmu.Unlock()
		panic("sync: Unlock of unlocked RWMutex")
	}
	rw.writer = false
	gcv.Broadcast()
	gmu.Unlock()
}

func (rw *RWMutex) RLock() {
	if vsched.Point(vsched.KRLock, rw, func() bool { gmu.Lock(); ok := !rw.writer && rw.pending == 0; gmu.Unlock(); return ok }) {
		gmu.Lock()
		if !vsched.Killing() {
			for rw.writer || rw.pending > 0 {
				gcv.Wait()
			}
		}
		rw.readers++
		Stats.RLocks++
		gmu.Unlock()
		return
	}
	gmu.Lock()
	for (rw.writer || rw.pending > 0) && !vsched.Killing() {
		gcv.Wait()
	}
	rw.readers++
	gmu.Unlock()
}

func (rw *RWMutex) TryRLock() bool {
	gmu.Lock()
	defer gmu.Unlock()
	if rw.writer || rw.pending > 0 {
		return false
	}
	rw.readers++
	return true
}

func (rw *RWMutex) RUnlock() {
	gmu.Lock()
	if rw.readers <= 0 && !vsched.Killing() {
		gmu.Unlock()
		panic("sync: RUnlock of unlocked RWMutex")
	}
	if rw.readers > 0 {
		rw.readers--
	}
	gcv.Broadcast()
	gmu.Unlock()
}

type rlocker RWMutex

func (r *rlocker) Lock()   { (*RWMutex)(r).RLock() }
func (r *rlocker) Unlock() { (*RWMutex)(r).RUnlock() }

func (rw *RWMutex) RLocker() Locker { return (*rlocker)(rw) }

// ---------------------------------------------------------------------------

type WaitGroup struct {
	n int
}

func (wg *WaitGroup) Add(delta int) {
	gmu.Lock()
	wg.n += delta
	if wg.n < 0 {
		wg.n = 0
		kill := vsched.Killing()
		gmu.Unlock()
		if kill {
			return
		}
		panic("sync: negative WaitGroup counter")
	}
	if wg.n == 0 {
		gcv.Broadcast()
	}
	gmu.Unlock()
}

func (wg *WaitGroup) Done() { wg.Add(-1) }

func (wg *WaitGroup) Go(f func()) {
	wg.Add(1)
	vsched.Go(func() {
		defer wg.Done()
		f()
	})
}

func (wg *WaitGroup) Wait() {
	if vsched.Point(vsched.KWait, wg, func() bool { gmu.Lock(); ok := wg.n == 0; gmu.Unlock(); return ok }) {
		gmu.Lock()
		for wg.n > 0 && !vsched.Killing() {
			gcv.Wait()
		}
		Stats.Waits++
		gmu.Unlock()
		return
	}
	gmu.Lock()
	for wg.n > 0 && !vsched.Killing() {
		gcv.Wait()
	}
	gmu.Unlock()
}

// ---------------------------------------------------------------------------

type Once struct {
	done bool
	m    Mutex
}

func (o *Once) Do(f func()) {
	gmu.Lock()
	d := o.done
	gmu.Unlock()
	if d {
		return
	}
	o.m.Lock()
	defer o.m.Unlock()
	gmu.Lock()
	d = o.done
	gmu.Unlock()
	if !d {
		defer func() {
			gmu.Lock()
			o.done = true
			gmu.Unlock()
		}()
		f()
	}
}

func OnceFunc(f func()) func() {
	var once Once
	var valid bool
	var p any
	g := func() {
		defer func() {
			p = recover()
			if !valid {
				panic(p)
			}
		}()
		f()
		f = nil
		valid = true
	}
	return func() {
		once.Do(g)
		if !valid {
			panic(p)
		}
	}
}

func OnceValue[T any](f func() T) func() T {
	var once Once
	var valid bool
	var p any
	var result T
	g := func() {
		defer func() {
			p = recover()
			if !valid {
				panic(p)
			}
		}()
		result = f()
		f = nil
		valid = true
	}
	return func() T {
		once.Do(g)
		if !valid {
			panic(p)
		}
		return result
	}
}

func OnceValues[T1, T2 any](f func() (T1, T2)) func() (T1, T2) {
	var once Once
	var valid bool
	var p any
	var r1 T1
	var r2 T2
	g := func() {
		defer func() {
			p = recover()
			if !valid {
				panic(p)
			}
		}()
		r1, r2 = f()
		f = nil
		valid = true
	}
	return func() (T1, T2) {
		once.Do(g)
		if !valid {
			panic(p)
		}
		return r1, r2
	}
}

// ---------------------------------------------------------------------------

type Cond struct {
	L       Locker
	waiters []*condWaiter
}

type condWaiter struct{ signalled bool }

func NewCond(l Locker) *Cond { return &Cond{L: l} }

func (c *Cond) Wait() {
	w := &condWaiter{}
	gmu.Lock()
	c.waiters = append(c.waiters, w)
	gmu.Unlock()
	c.L.Unlock()
	if !vsched.Point(vsched.KCond, c, func() bool { gmu.Lock(); ok := w.signalled; gmu.Unlock(); return ok }) {
		gmu.Lock()
		for !w.signalled && !vsched.Killing() {
			gcv.Wait()
		}
		gmu.Unlock()
	}
	c.L.Lock()
}

func (c *Cond) Signal() {
	gmu.Lock()
	if len(c.waiters) > 0 {
		c.waiters[0].signalled = true
		c.waiters = c.waiters[1:]
	}
	gcv.Broadcast()
	gmu.Unlock()
}

func (c *Cond) Broadcast() {
	gmu.Lock()
	for _, w := range c.waiters {
		w.signalled = true
	}
	c.waiters = nil
	gcv.Broadcast()
	gmu.Unlock()
}

// WakeAll wakes every unmanaged goroutine blocked in the shim (teardown).
func WakeAll() {
	gmu.Lock()
	gcv.Broadcast()
	gmu.Unlock()
}
