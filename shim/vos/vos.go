// Package vos wraps the file operations of package os used by the code under
// test: each call is a scheduling Point (engine S), is performed for real, and
// is reported to a harness hook before and after (crash images, spill-file
// accounting).
package vos

import (
	"os"
	"sync"

	"github.com/basecamp/kamal-proxy/internal/verif/vsched"
)

type Event struct {
	Op    string
	Path  string
	Path2 string
	After bool
	Err   error
}

var (
	mu   sync.Mutex
	hook func(Event)
	Ops  int64
)

// SetHook installs the per-execution observer (nil to remove).
func SetHook(h func(Event)) {
	mu.Lock()
	hook = h
	mu.Unlock()
}

func emit(e Event) {
	mu.Lock()
	h := hook
	Ops++
	mu.Unlock()
	if h != nil {
		h(e)
	}
}

func pre(op, p, p2 string) {
	vsched.Point(vsched.KFile, op, nil)
	emit(Event{Op: op, Path: p, Path2: p2})
}

func Create(name string) (*os.File, error) {
	pre("create", name, "")
	f, err := os.Create(name)
	emit(Event{Op: "create", Path: name, After: true, Err: err})
	return f, err
}

func Open(name string) (*os.File, error) {
	pre("open", name, "")
	f, err := os.Open(name)
	emit(Event{Op: "open", Path: name, After: true, Err: err})
	return f, err
}

func OpenFile(name string, flag int, perm os.FileMode) (*os.File, error) {
	pre("openfile", name, "")
	f, err := os.OpenFile(name, flag, perm)
	emit(Event{Op: "openfile", Path: name, After: true, Err: err})
	return f, err
}

func CreateTemp(dir, pattern string) (*os.File, error) {
	pre("createtemp", dir+"/"+pattern, "")
	f, err := os.CreateTemp(dir, pattern)
	name := ""
	if f != nil {
		name = f.Name()
	}
	emit(Event{Op: "createtemp", Path: name, After: true, Err: err})
	return f, err
}

func Rename(oldpath, newpath string) error {
	pre("rename", oldpath, newpath)
	err := os.Rename(oldpath, newpath)
	emit(Event{Op: "rename", Path: oldpath, Path2: newpath, After: true, Err: err})
	return err
}

func Remove(name string) error {
	pre("remove", name, "")
	err := os.Remove(name)
	emit(Event{Op: "remove", Path: name, After: true, Err: err})
	return err
}

func WriteFile(name string, data []byte, perm os.FileMode) error {
	pre("writefile", name, "")
	// the truncating half and the writing half are separate crash points
	f, err := os.OpenFile(name, os.O_WRONLY|os.O_CREATE|os.O_TRUNC, perm)
	if err != nil {
		emit(Event{Op: "writefile", Path: name, After: true, Err: err})
		return err
	}
	emit(Event{Op: "writefile-truncated", Path: name, After: true})
	_, err = f.Write(data)
	if err1 := f.Close(); err1 != nil && err == nil {
		err = err1
	}
	emit(Event{Op: "writefile", Path: name, After: true, Err: err})
	return err
}

func ReadFile(name string) ([]byte, error) {
	pre("readfile", name, "")
	b, err := os.ReadFile(name)
	emit(Event{Op: "readfile", Path: name, After: true, Err: err})
	return b, err
}

func Truncate(name string, size int64) error {
	pre("truncate", name, "")
	err := os.Truncate(name, size)
	emit(Event{Op: "truncate", Path: name, After: true, Err: err})
	return err
}

func Link(oldname, newname string) error {
	pre("link", oldname, newname)
	err := os.Link(oldname, newname)
	emit(Event{Op: "link", Path: oldname, Path2: newname, After: true, Err: err})
	return err
}
