package memnet

import (
	"bufio"
	"bytes"
	"fmt"
	"io"
	"net/http"
	"strconv"
	"strings"
	"sync"
	"time"
)

type Event struct {
	Seq         int
	At          time.Duration
	Kind        string
	Target      string
	Conn        int
	Probe       bool
	Status      int
	Method      string
	URI         string
	Host        string
	Header      http.Header
	Body        []byte
	FirstByteAt time.Duration
	ReqID       string
	Plan        string
	Note        string
}

// ProbeStep scripts the outcome of one health probe.
//
//	Kind: "ok" (2xx after Delay), "status" (Status after Delay), "refuse",
//	      "hang" (never answers), "ok-stall" (2xx status line and headers at once, then half of the body,
//	      then nothing: the connection stays open until the prober gives up)
type ProbeStep struct {
	Kind   string
	Delay  time.Duration
	Status int
}

// Response describes how a target answers one client request.
type Response struct {
	Delay      time.Duration // before the first byte
	Hang       bool          // never answer
	Upgrade    bool          // 101 + echo until EOF
	Status     int
	Header     [][2]string
	Body       []byte
	Chunked    bool
	Raw        []byte // if set, these bytes are the response
	Fault      string // "", "close", "stall", "garbage"
	FaultAt    int    // byte offset in the raw response at which the fault happens
	Gaps       []Gap  // pauses while writing (event streams)
	StreamTail time.Duration // status line, headers and all but the last body byte at once, the last byte after this long
	CloseAfter bool
}

type Gap struct {
	Offset int
	Wait   time.Duration
}

type RawPlan = Response

type Target struct {
	Name           string
	HealthPath     string
	Probes         []ProbeStep
	RefuseRequests bool
	// Responder, if set, decides the answer to a client request; nil result
	// means default.
	Responder func(req *http.Request, body []byte) *Response

	mu       sync.Mutex
	probeIdx int
	net      *Net
	Active   int // requests received and not yet fully answered
}

func (t *Target) nextProbe() *ProbeStep {
	t.mu.Lock()
	defer t.mu.Unlock()
	if len(t.Probes) == 0 {
		return &ProbeStep{Kind: "ok"}
	}
	i := t.probeIdx
	if i >= len(t.Probes) {
		i = len(t.Probes) - 1
	}
	t.probeIdx++
	st := t.Probes[i]
	return &st
}

// ProbesStarted is the number of probe attempts (dials) so far.
func (t *Target) ProbesStarted() int {
	t.mu.Lock()
	defer t.mu.Unlock()
	return t.probeIdx
}

func sleepOrClosed(c *Conn, d time.Duration) bool {
	if d <= 0 {
		select {
		case <-c.Done():
			return false
		default:
			return true
		}
	}
	tm := time.NewTimer(d)
	defer tm.Stop()
	select {
	case <-tm.C:
		return true
	case <-c.Done():
		return false
	}
}

func (t *Target) serve(c *Conn, step *ProbeStep) {
	defer c.Close()
	n := t.net
	br := bufio.NewReader(c)
	for {
		if _, err := br.Peek(1); err != nil {
			return
		}
		first := n.Now()
		req, err := http.ReadRequest(br)
		if err != nil {
			n.log(Event{Kind: "bad-request", Target: t.Name, Conn: c.ID, Note: err.Error()})
			return
		}
		if !c.Probe && step == nil && ProbeUserAgent != "" && req.Header.Get("User-Agent") == ProbeUserAgent {
			// a probe sent through a client of the code under test's own making
			c.Probe = true
			step = t.nextProbe()
			if step.Kind == "refuse" {
				n.log(Event{Kind: "probe-refused", Target: t.Name, Probe: true})
				return
			}
		}
		if c.Probe {
			n.log(Event{Kind: "probe", Target: t.Name, Conn: c.ID, Probe: true, URI: req.RequestURI, Header: req.Header})
			switch step.Kind {
			case "hang":
				<-c.Done()
				return
			}
			if !sleepOrClosed(c, step.Delay) {
				n.log(Event{Kind: "probe-abandoned", Target: t.Name, Conn: c.ID, Probe: true})
				return
			}
			status := 200
			if step.Kind == "status" {
				status = step.Status
			}
			if step.Kind == "ok-stall" {
				n.log(Event{Kind: "probe-answer", Target: t.Name, Conn: c.ID, Probe: true, Status: 200, Note: "body stalls"})
				c.Write([]byte("HTTP/1.1 200 OK\r\nContent-Length: 2\r\nConnection: close\r\n\r\no"))
				<-c.Done()
				n.log(Event{Kind: "probe-abandoned", Target: t.Name, Conn: c.ID, Probe: true})
				return
			}
			body := "ok"
			raw := fmt.Sprintf("HTTP/1.1 %d %s\r\nContent-Length: %d\r\nConnection: close\r\n\r\n%s", status, http.StatusText(status), len(body), body)
			// log before the bytes leave: an event with a smaller sequence
			// number than anything the proxy does in reaction to the answer
			n.log(Event{Kind: "probe-answer", Target: t.Name, Conn: c.ID, Probe: true, Status: status})
			if _, err := c.Write([]byte(raw)); err != nil {
				return
			}
			return
		}
		// client request
		if e := req.Header.Get("X-Verif-Early"); e != "" {
			// answer after reading only the first k bytes of the body, then close the connection
			k, _ := strconv.Atoi(e)
			part := make([]byte, k)
			got, _ := io.ReadFull(req.Body, part)
			n.log(Event{Kind: "req", Target: t.Name, Conn: c.ID, Method: req.Method, URI: req.RequestURI, Host: req.Host, Header: req.Header, Body: part[:got], FirstByteAt: first, ReqID: req.Header.Get("X-Request-Id"), Note: "early-answer"})
			c.Write([]byte("HTTP/1.1 200 OK\r\nContent-Length: 5\r\nConnection: close\r\nX-Target: " + t.Name + "\r\n\r\nearly"))
			n.log(Event{Kind: "resp", Target: t.Name, Conn: c.ID, Status: 200, ReqID: req.Header.Get("X-Request-Id")})
			return
		}
		if req.Header.Get("X-Verif-Mute") != "" {
			// a target that accepts the request head and then stays silent: it neither reads the body nor answers
			// (no `100 Continue` either) until the proxy gives the connection up
			n.log(Event{Kind: "req", Target: t.Name, Conn: c.ID, Method: req.Method, URI: req.RequestURI, Host: req.Host, Header: req.Header, FirstByteAt: first, ReqID: req.Header.Get("X-Request-Id"), Note: "mute"})
			<-c.Done()
			return
		}
		var body []byte
		var bodyErr error
		if strings.EqualFold(req.Header.Get("Expect"), "100-continue") {
			// what a real server does when its handler starts reading such a body
			c.Write([]byte("HTTP/1.1 100 Continue\r\n\r\n"))
		}
		if req.Header.Get("Upgrade") == "" {
			body, bodyErr = io.ReadAll(req.Body)
		}
		plan := req.Header.Get("X-Verif-Plan")
		t.mu.Lock()
		t.Active++
		t.mu.Unlock()
		ev := Event{Kind: "req", Target: t.Name, Conn: c.ID, Method: req.Method, URI: req.RequestURI, Host: req.Host,
			Header: req.Header, Body: body, FirstByteAt: first, ReqID: req.Header.Get("X-Request-Id"), Plan: plan}
		if len(req.TransferEncoding) > 0 {
			ev.Note = "te=" + strings.Join(req.TransferEncoding, ",")
		}
		if bodyErr != nil {
			ev.Note += " body-error=" + bodyErr.Error()
		}
		n.log(ev)
		done := func(kind string, status int) {
			t.mu.Lock()
			t.Active--
			t.mu.Unlock()
			n.log(Event{Kind: kind, Target: t.Name, Conn: c.ID, Status: status, ReqID: ev.ReqID, Plan: plan})
		}
		if bodyErr != nil {
			done("resp-abort", 0)
			return
		}
		var resp *Response
		if t.Responder != nil {
			resp = t.Responder(req, body)
		}
		if resp == nil {
			resp = t.planResponse(plan)
		}
		if resp.Hang {
			<-c.Done()
			done("resp-abort", 0)
			return
		}
		if !sleepOrClosed(c, resp.Delay) {
			done("resp-abort", 0)
			return
		}
		if resp.Upgrade {
			raw := "HTTP/1.1 101 Switching Protocols\r\nUpgrade: " + req.Header.Get("Upgrade") + "\r\nConnection: Upgrade\r\nX-Target: " + t.Name + "\r\n\r\n"
			if _, err := c.Write([]byte(raw)); err != nil {
				done("resp-abort", 101)
				return
			}
			n.log(Event{Kind: "upgraded", Target: t.Name, Conn: c.ID, ReqID: ev.ReqID})
			buf := make([]byte, 512)
			for {
				k, err := br.Read(buf)
				if k > 0 {
					c.Write(buf[:k])
				}
				if err != nil {
					break
				}
			}
			done("upgrade-eof", 101)
			return
		}
		raw := resp.Raw
		if raw == nil {
			raw = t.buildRaw(resp, req.Method == "HEAD")
		}
		if resp.StreamTail > 0 && len(resp.Gaps) == 0 && len(raw) > 1 {
			cp := *resp
			cp.Gaps = []Gap{{Offset: len(raw) - 1, Wait: resp.StreamTail}}
			resp = &cp
		}
		ok := t.writeRaw(c, raw, resp)
		if !ok {
			done("resp-abort", resp.Status)
			return
		}
		done("resp", resp.Status)
		if resp.CloseAfter {
			return
		}
	}
}

// writeRaw writes the raw response honouring gaps and the fault. Returns
// false if the response was not delivered completely.
func (t *Target) writeRaw(c *Conn, raw []byte, resp *Response) bool {
	end := len(raw)
	if resp.Fault != "" && resp.FaultAt < end {
		end = resp.FaultAt
	}
	pos := 0
	for _, g := range resp.Gaps {
		if g.Offset > end {
			break
		}
		if g.Offset > pos {
			if _, err := c.Write(raw[pos:g.Offset]); err != nil {
				return false
			}
			pos = g.Offset
		}
		if !sleepOrClosed(c, g.Wait) {
			return false
		}
	}
	if end > pos {
		if _, err := c.Write(raw[pos:end]); err != nil {
			return false
		}
	}
	switch resp.Fault {
	case "":
		return true
	case "close":
		t.net.log(Event{Kind: "fault", Target: t.Name, Conn: c.ID, Note: fmt.Sprintf("close@%d", resp.FaultAt)})
		c.Close()
	case "stall":
		t.net.log(Event{Kind: "fault", Target: t.Name, Conn: c.ID, Note: fmt.Sprintf("stall@%d", resp.FaultAt)})
		<-c.Done()
	case "garbage":
		t.net.log(Event{Kind: "fault", Target: t.Name, Conn: c.ID, Note: fmt.Sprintf("garbage@%d", resp.FaultAt)})
		c.Write([]byte("\x00\xff!!garbage!!\r\n\x01\x02 not http \r\n\r\n"))
		c.Close()
	}
	return false
}

func (t *Target) buildRaw(r *Response, head bool) []byte {
	var b bytes.Buffer
	status := r.Status
	if status == 0 {
		status = 200
	}
	fmt.Fprintf(&b, "HTTP/1.1 %d %s\r\n", status, http.StatusText(status))
	hasCT, hasTarget := false, false
	for _, kv := range r.Header {
		fmt.Fprintf(&b, "%s: %s\r\n", kv[0], kv[1])
		if strings.EqualFold(kv[0], "Content-Type") {
			hasCT = true
		}
		if strings.EqualFold(kv[0], "X-Target") {
			hasTarget = true
		}
	}
	if !hasTarget {
		fmt.Fprintf(&b, "X-Target: %s\r\n", t.Name)
	}
	body := r.Body
	noBody := status == 204 || status == 304 || (status >= 100 && status < 200)
	if !hasCT && !noBody {
		b.WriteString("Content-Type: text/plain\r\n")
	}
	if r.Chunked && !noBody {
		b.WriteString("Transfer-Encoding: chunked\r\n\r\n")
		if !head {
			// three chunks
			k := len(body)
			cuts := []int{k / 3, 2 * k / 3, k}
			prev := 0
			for _, cpos := range cuts {
				if cpos > prev {
					fmt.Fprintf(&b, "%x\r\n", cpos-prev)
					b.Write(body[prev:cpos])
					b.WriteString("\r\n")
					prev = cpos
				}
			}
			b.WriteString("0\r\n\r\n")
		}
	} else {
		if !noBody {
			fmt.Fprintf(&b, "Content-Length: %d\r\n", len(body))
		}
		b.WriteString("\r\n")
		if !head && !noBody {
			b.Write(body)
		}
	}
	return b.Bytes()
}

// planResponse interprets the X-Verif-Plan request header:
//
//	delay=<dur>;hang;stream=<dur>;upgrade;status=<n>;len=<n>;chunked;r=<name>
func (t *Target) planResponse(plan string) *Response {
	r := &Response{Status: 200, Body: []byte(t.Name)}
	if plan == "" {
		return r
	}
	for _, f := range strings.Split(plan, ";") {
		k, v, _ := strings.Cut(strings.TrimSpace(f), "=")
		switch k {
		case "delay":
			d, _ := time.ParseDuration(v)
			r.Delay = d
		case "hang":
			r.Hang = true
		case "stream":
			d, _ := time.ParseDuration(v)
			r.StreamTail = d
		case "upgrade":
			r.Upgrade = true
		case "status":
			r.Status, _ = strconv.Atoi(v)
		case "len":
			n, _ := strconv.Atoi(v)
			r.Body = bytes.Repeat([]byte("x"), n)
		case "chunked":
			r.Chunked = true
		case "r":
			t.net.mu.Lock()
			rp := t.net.Raw[v]
			t.net.mu.Unlock()
			if rp != nil {
				cp := *rp
				if cp.Delay == 0 {
					cp.Delay = r.Delay
				}
				return &cp
			}
		}
	}
	return r
}
