// Package memnet is an in-memory network for the verif harness: buffered duplex
// connections built on sync.Cond (durably blocking inside a synctest bubble) and
// scripted HTTP targets that log everything they see with virtual time stamps.
package memnet

import (
	"context"
	"errors"
	"io"
	"net"
	"os"
	"sync"
	"sync/atomic"
	"syscall"
	"time"
)

type addr string

func (a addr) Network() string { return "mem" }
func (a addr) String() string  { return string(a) }

// half is one direction of a connection.
type half struct {
	mu      sync.Mutex
	cv      *sync.Cond
	buf     []byte
	wclosed bool // writer closed: reader gets EOF after the buffer is drained
	rclosed bool // reader closed: writes fail
	rdl     time.Time
	timer   *time.Timer
	total   int64 // bytes ever written
}

func newHalf() *half {
	h := &half{}
	h.cv = sync.NewCond(&h.mu)
	return h
}

type Conn struct {
	r, w          *half
	local, remote addr
	ID            int
	Probe         bool
	Target        string
	net           *Net
	closeOnce     sync.Once
	closed        chan struct{} // closed when either side closes
	peer          *Conn
	ServerSide    bool
	ClosedBy      string
	ClosedAt      time.Duration
}

func pipe(n *Net, id int, target string, probe bool) (client, server *Conn) {
	a, b := newHalf(), newHalf()
	ch := make(chan struct{})
	client = &Conn{r: a, w: b, local: "proxy", remote: addr(target), ID: id, Probe: probe, Target: target, net: n, closed: ch}
	server = &Conn{r: b, w: a, local: addr(target), remote: "proxy", ID: id, Probe: probe, Target: target, net: n, closed: ch, ServerSide: true}
	client.peer, server.peer = server, client
	return
}

func (c *Conn) Read(p []byte) (int, error) {
	h := c.r
	h.mu.Lock()
	defer h.mu.Unlock()
	for {
		if h.rclosed {
			return 0, net.ErrClosed
		}
		if len(h.buf) > 0 {
			n := copy(p, h.buf)
			h.buf = h.buf[n:]
			h.cv.Broadcast() // room for a writer held by the window
			return n, nil
		}
		if h.wclosed {
			return 0, io.EOF
		}
		if !h.rdl.IsZero() && !time.Now().Before(h.rdl) {
			return 0, os.ErrDeadlineExceeded
		}
		h.cv.Wait()
	}
}

func (c *Conn) Write(p []byte) (int, error) {
	h := c.w
	h.mu.Lock()
	defer h.mu.Unlock()
	if h.wclosed {
		return 0, net.ErrClosed
	}
	if h.rclosed {
		return 0, &net.OpError{Op: "write", Net: "mem", Err: syscall.EPIPE}
	}
	// a connection holds at most PipeWindow unread bytes (like a socket buffer): a writer whose peer does not read
	// is held, and fails when the peer closes
	for len(h.buf) >= PipeWindow {
		h.cv.Wait()
		if h.wclosed {
			return 0, net.ErrClosed
		}
		if h.rclosed {
			return 0, &net.OpError{Op: "write", Net: "mem", Err: syscall.EPIPE}
		}
	}
	h.buf = append(h.buf, p...)
	h.total += int64(len(p))
	h.cv.Broadcast()
	return len(p), nil
}

// PipeWindow is the number of unread bytes a connection buffers before writers are held.
const PipeWindow = 64 << 10

// Close closes both directions: the peer reads EOF (after buffered data) and
// its writes fail.
func (c *Conn) Close() error {
	c.closeSide("")
	return nil
}

func (c *Conn) closeSide(by string) {
	first := false
	c.r.mu.Lock()
	if !c.r.rclosed {
		first = true
	}
	c.r.rclosed = true
	c.r.cv.Broadcast()
	c.r.mu.Unlock()
	c.w.mu.Lock()
	c.w.wclosed = true
	c.w.cv.Broadcast()
	c.w.mu.Unlock()
	if first {
		if by == "" {
			if c.ServerSide {
				by = "target"
			} else {
				by = "proxy"
			}
		}
		c.net.connClosed(c, by)
	}
}

func (c *Conn) LocalAddr() net.Addr  { return c.local }
func (c *Conn) RemoteAddr() net.Addr { return c.remote }

func (c *Conn) SetDeadline(t time.Time) error {
	c.SetReadDeadline(t)
	return nil
}

func (c *Conn) SetReadDeadline(t time.Time) error {
	h := c.r
	h.mu.Lock()
	defer h.mu.Unlock()
	h.rdl = t
	if h.timer != nil {
		h.timer.Stop()
		h.timer = nil
	}
	if !t.IsZero() {
		d := time.Until(t)
		if d <= 0 {
			h.cv.Broadcast()
		} else {
			h.timer = time.AfterFunc(d, func() {
				h.mu.Lock()
				h.cv.Broadcast()
				h.mu.Unlock()
			})
		}
	}
	return nil
}

func (c *Conn) SetWriteDeadline(t time.Time) error { return nil }

// Done is closed when either end has closed the connection.
func (c *Conn) Done() <-chan struct{} { return c.closed }

// BytesFromPeer is the number of bytes the peer has written so far.
func (c *Conn) BytesFromPeer() int64 {
	c.r.mu.Lock()
	defer c.r.mu.Unlock()
	return c.r.total
}

// ---------------------------------------------------------------------------

type Net struct {
	mu      sync.Mutex
	start   time.Time
	seq     int
	connSeq int
	Log     []Event
	targets map[string]*Target
	conns   []*Conn
	done    bool
	// RawPlans: named raw responses for fault enumeration
	Raw map[string]*RawPlan
}

var cur atomic.Pointer[Net]

func Cur() *Net { return cur.Load() }

func New() *Net {
	n := &Net{start: time.Now(), targets: map[string]*Target{}, Raw: map[string]*RawPlan{}}
	cur.Store(n)
	return n
}

func (n *Net) Now() time.Duration { return time.Since(n.start) }

func (n *Net) Add(t *Target) *Target {
	n.mu.Lock()
	t.net = n
	n.targets[t.Name] = t
	n.mu.Unlock()
	return t
}

func (n *Net) Target(name string) *Target {
	n.mu.Lock()
	defer n.mu.Unlock()
	return n.targets[name]
}

func (n *Net) log(e Event) int {
	n.mu.Lock()
	defer n.mu.Unlock()
	n.seq++
	e.Seq = n.seq
	e.At = time.Since(n.start)
	n.Log = append(n.Log, e)
	return e.Seq
}

// Mark appends a harness event (command start/return etc.) to the same
// sequence so that orders can be compared.
func (n *Net) Mark(kind, note string) int {
	return n.log(Event{Kind: kind, Note: note})
}

func (n *Net) Mark2(kind, target string, status int, note string) int {
	return n.log(Event{Kind: kind, Target: target, Status: status, Note: note})
}

// MarkRef logs a harness event that refers to an earlier one (ref, carried in Conn).
func (n *Net) MarkRef(kind, target string, status int, note string, ref int) int {
	return n.log(Event{Kind: kind, Target: target, Status: status, Note: note, Conn: ref})
}

func (n *Net) Events() []Event {
	n.mu.Lock()
	defer n.mu.Unlock()
	return append([]Event(nil), n.Log...)
}

func (n *Net) connClosed(c *Conn, by string) {
	n.mu.Lock()
	at := time.Since(n.start)
	if c.ClosedBy == "" && c.peer.ClosedBy == "" {
		c.ClosedBy, c.ClosedAt = by, at
		c.peer.ClosedBy, c.peer.ClosedAt = by, at
		select {
		case <-c.closed:
		default:
			close(c.closed)
		}
	}
	n.mu.Unlock()
}

// CloseConnsOf closes every connection to the named target (used to end
// upgraded connections that nobody else would close).
func (n *Net) CloseConnsOf(target string) {
	n.mu.Lock()
	conns := append([]*Conn(nil), n.conns...)
	n.mu.Unlock()
	for _, c := range conns {
		if c.Target == target {
			c.peer.closeSide("target")
		}
	}
}

// Close tears the network down: every connection is closed.
func (n *Net) Close() {
	n.mu.Lock()
	n.done = true
	conns := append([]*Conn(nil), n.conns...)
	n.mu.Unlock()
	for _, c := range conns {
		c.closeSide("teardown")
		c.peer.closeSide("teardown")
	}
}

var errRefused = &net.OpError{Op: "dial", Net: "tcp", Err: os.NewSyscallError("connect", syscall.ECONNREFUSED)}

func DialContext(ctx context.Context, network, address string) (net.Conn, error) {
	n := cur.Load()
	if n == nil {
		return nil, errors.New("memnet: no network")
	}
	return n.dial(ctx, address, false)
}

// ReplaceDial is what the instrumenter wraps around a dialer the code under test configures itself: the dialer is
// evaluated and dropped, connections go through the in-memory network.
func ReplaceDial[T any](_ T) func(ctx context.Context, network, address string) (net.Conn, error) {
	return DialContext
}

// ProbeUserAgent, when set by the harness, marks health probes that do not come through the default HTTP client
// (whose transport the harness owns): a connection whose first request carries it is served as a scripted probe.
var ProbeUserAgent string

func DialProbe(ctx context.Context, network, address string) (net.Conn, error) {
	n := cur.Load()
	if n == nil {
		return nil, errors.New("memnet: no network")
	}
	return n.dial(ctx, address, true)
}

func (n *Net) dial(ctx context.Context, address string, probe bool) (net.Conn, error) {
	n.mu.Lock()
	if n.done {
		n.mu.Unlock()
		return nil, errRefused
	}
	t := n.targets[address]
	n.mu.Unlock()
	if t == nil {
		n.log(Event{Kind: "dial-unknown", Target: address, Probe: probe})
		return nil, errRefused
	}
	var step *ProbeStep
	if probe {
		step = t.nextProbe()
		if step.Kind == "refuse" {
			n.log(Event{Kind: "probe-refused", Target: address, Probe: true})
			return nil, errRefused
		}
	} else if t.RefuseRequests {
		n.log(Event{Kind: "dial-refused", Target: address})
		return nil, errRefused
	}
	n.mu.Lock()
	n.connSeq++
	id := n.connSeq
	client, server := pipe(n, id, address, probe)
	n.conns = append(n.conns, client)
	n.mu.Unlock()
	if !probe {
		n.log(Event{Kind: "dial", Target: address, Conn: id})
	}
	go t.serve(server, step)
	return client, nil
}

// NewPipe returns a connected pair that is not attached to a target (used for
// the client side of upgraded connections).
func NewPipe(n *Net) (a, b *Conn) {
	n.mu.Lock()
	n.connSeq++
	id := n.connSeq
	a, b = pipe(n, id, "client", false)
	a.ServerSide = false
	b.ServerSide = false
	n.conns = append(n.conns, a)
	n.mu.Unlock()
	return a, b
}
