//go:build verif

package server

import (
	"fmt"
	"hash/fnv"
	"sort"
	"strings"
	"time"
)

// Reference model for engine H: boring data + the rules of the property
// statements. It never looks at the implementation.

type MSplit struct {
	Pct   int
	Allow []string
}

type MService struct {
	Name     string
	Hosts    []string // normalised: "" = default host
	Paths    []string // normalised: "/x"
	Active   []string
	Rollout  []string
	Split    *MSplit
	Gate     string // running | paused | stopped
	Msg      string
	MaxPause time.Duration
	Opt      string // option variant of the last successful deploy
}

type Model struct {
	Services map[string]*MService
}

func newModel() *Model { return &Model{Services: map[string]*MService{}} }

func (m *Model) clone() *Model {
	n := newModel()
	for k, s := range m.Services {
		c := *s
		c.Hosts = append([]string(nil), s.Hosts...)
		c.Paths = append([]string(nil), s.Paths...)
		c.Active = append([]string(nil), s.Active...)
		c.Rollout = append([]string(nil), s.Rollout...)
		if s.Split != nil {
			sp := *s.Split
			sp.Allow = append([]string(nil), s.Split.Allow...)
			c.Split = &sp
		}
		n.Services[k] = &c
	}
	return n
}

func (m *Model) key() string {
	var parts []string
	for _, n := range sortedKeys(m.Services) {
		s := m.Services[n]
		sp := "-"
		if s.Split != nil {
			sp = fmt.Sprintf("%d/%v", s.Split.Pct, s.Split.Allow)
		}
		parts = append(parts, fmt.Sprintf("%s h=%v p=%v a=%d r=%d sp=%s g=%s/%s/%v o=%s", n, s.Hosts, s.Paths, len(s.Active), len(s.Rollout), sp, s.Gate, s.Msg, s.MaxPause, s.Opt))
	}
	return strings.Join(parts, "; ")
}

func normHosts(h []string) []string {
	if len(h) == 0 {
		return []string{""}
	}
	return h
}

func normPaths(p []string) []string {
	if len(p) == 0 {
		return []string{"/"}
	}
	var res []string
	for _, x := range p {
		res = append(res, "/"+strings.Trim(x, "/"))
	}
	return res
}

// conflictWith returns the name of a service other than `name` owning one of
// the (host, path) pairs, or "".
func (m *Model) conflictWith(name string, hosts, paths []string) string {
	for _, n := range sortedKeys(m.Services) {
		s := m.Services[n]
		if n == name {
			continue
		}
		for _, h := range hosts {
			for _, p := range paths {
				for _, sh := range s.Hosts {
					for _, sp := range s.Paths {
						if h == sh && p == sp {
							return n
						}
					}
				}
			}
		}
	}
	return ""
}

func stripPort(host string) string {
	if strings.HasPrefix(host, "[") {
		if i := strings.LastIndex(host, "]"); i >= 0 {
			return strings.Trim(host[:i+1], "[]")
		}
	}
	if i := strings.LastIndex(host, ":"); i > 0 && strings.Count(host, ":") == 1 {
		return host[:i]
	}
	return host
}

// route is the routing rule of C04: exact host, else "*."+parent, else
// default; among those the longest prefix matching on a segment boundary.
func (m *Model) route(hostHeader, path string) (svc string, prefix string) {
	host := stripPort(hostHeader)
	level := func(h string) []*MService {
		var res []*MService
		for _, n := range sortedKeys(m.Services) {
			for _, sh := range m.Services[n].Hosts {
				if sh == h {
					res = append(res, m.Services[n])
					break
				}
			}
		}
		return res
	}
	cands := level(host)
	if len(cands) == 0 {
		if i := strings.Index(host, "."); i > 0 {
			cands = level("*" + host[i:])
		}
	}
	if len(cands) == 0 {
		cands = level("")
	}
	best, bestLen := "", -1
	bestPrefix := ""
	for _, s := range cands {
		for _, p := range s.Paths {
			if pathMatches(path, p) && len(p) > bestLen {
				best, bestLen, bestPrefix = s.Name, len(p), p
			}
		}
	}
	return best, bestPrefix
}

func pathMatches(path, prefix string) bool {
	if prefix == "/" {
		return true
	}
	return path == prefix || strings.HasPrefix(path, prefix+"/")
}

// rootServiceFor returns the service owning (host-level of the matched
// binding, "/"): the one whose TLS settings a sub-path service follows (C16).
func (m *Model) rootPolicy(hostHeader string) *MService {
	n, _ := m.route(hostHeader, "/")
	if n == "" {
		return nil
	}
	s := m.Services[n]
	for _, p := range s.Paths {
		if p == "/" {
			return s
		}
	}
	return nil
}

func fnv32a(v string) uint32 {
	h := fnv.New32a()
	h.Write([]byte(v))
	return h.Sum32()
}

func (s *MService) inRollout(cookieValue string) bool {
	if cookieValue == "" || len(s.Rollout) == 0 || s.Split == nil {
		return false
	}
	for _, a := range s.Split.Allow {
		if a == cookieValue {
			return true
		}
	}
	switch {
	case s.Split.Pct >= 100:
		return true
	case s.Split.Pct <= 0:
		return false
	}
	// engine H only uses 0 and 100; other percentages are C10's (engine E)
	return float64(fnv32a(cookieValue)) <= float64(uint32(0xFFFFFFFF))*float64(s.Split.Pct)/100
}

func optTLS(opt string) (enabled, redirect bool) {
	switch opt {
	case "tls":
		return true, true
	case "tlsnr":
		return true, false
	}
	return false, true
}

func sortedCopy(s []string) []string {
	c := append([]string(nil), s...)
	sort.Strings(c)
	return c
}
