//go:build verif

package server

import (
	"fmt"
	"strings"
	"testing"
	"testing/synctest"
	"time"

	"github.com/basecamp/kamal-proxy/internal/verif/memnet"
	"github.com/basecamp/kamal-proxy/internal/verif/vsched"
	"github.com/basecamp/kamal-proxy/internal/verif/vsync"
)

func init() { checks["C18"] = checkC18 }

var c18Cmds = []string{"deploy", "redeploy-hosts", "rollout-deploy", "rollout-set", "rollout-stop", "pause", "stop", "resume", "remove", "list", "deploy-other", "deploy-conflict"}

type c18cfg struct {
	a, b    string
	clients string // "plain+cookie" | "upgrade+plain" | "held"
	pre     string // running | paused | flap (probe results of the deployed targets change their state while the commands run)
}

func (c c18cfg) String() string {
	return fmt.Sprintf("%s || %s clients=%s pre=%s", c.a, c.b, c.clients, c.pre)
}

func c18Do(w *World, cmd string, n int) {
	const host = "a.example.com"
	switch cmd {
	case "deploy":
		w.Deploy(deployArgs("s1", []string{fmt.Sprintf("n%d:80", n)}, []string{host}, nil))
	case "redeploy-hosts":
		w.Deploy(deployArgs("s1", []string{fmt.Sprintf("n%d:80", n)}, []string{host, "c.example.com"}, []string{"/", "/api"}))
	case "rollout-deploy":
		w.RolloutDeploy("s1", []string{fmt.Sprintf("r%d:80", n)})
	case "rollout-set":
		w.RolloutSet("s1", 100, []string{"v"})
	case "rollout-stop":
		w.RolloutStop("s1")
	case "pause":
		w.Pause("s1", vD, 2500*time.Millisecond)
	case "stop":
		w.Stop("s1", vD, "stopped")
	case "resume":
		w.Resume("s1")
	case "remove":
		w.Remove("s1")
	case "list":
		w.List()
	case "deploy-other":
		w.Deploy(deployArgs("s2", []string{fmt.Sprintf("x%d:80", n)}, []string{"b.example.com"}, nil))
	case "deploy-conflict":
		w.Deploy(deployArgs("s3", []string{fmt.Sprintf("y%d:80", n)}, []string{host}, nil))
	case "deploy-sick3", "rollout-deploy-sick3":
		// three targets that never become healthy: their waiters all give up at the same instant
		var ts []string
		for i := 0; i < 3; i++ {
			tn := fmt.Sprintf("sick%d-%d:80", n, i)
			if w.Net.Target(tn) == nil {
				w.AddTarget(tn, p500())
			}
			ts = append(ts, tn)
		}
		if cmd == "deploy-sick3" {
			a := deployArgs("s1", ts, []string{host}, nil)
			a.DeployTimeout = 1300 * time.Millisecond
			w.Deploy(a)
		} else {
			w.runCmd("rollout-deploy", fmt.Sprint(ts), func() error {
				var r bool
				return w.Cmd.RolloutDeploy(RolloutDeployArgs{Service: "s1", TargetURLs: ts, DeployTimeout: 1300 * time.Millisecond, DrainTimeout: vD}, &r)
			})
		}
	case "none":
	}
}

func c18Body(c c18cfg, controlled bool, leak *map[string]int) func(w *World) {
	const host = "a.example.com"
	return func(w *World) {
		t0 := w.Now()
		if c.pre == "flap" {
			// the third probe of the deployed targets (at t0+2 intervals, when the commands start) flips their state, the fourth flips it back
			w.AddTarget("oa:80", pOK(), pOK(), pRefuse(), pOK())
			w.AddTarget("ra:80", pOK(), pOK(), p500(), pOK())
		}
		for _, n := range []string{"oa:80", "ra:80", "n1:80", "n2:80", "r1:80", "r2:80", "x1:80", "x2:80", "y1:80", "y2:80"} {
			if w.Net.Target(n) == nil {
				w.AddTarget(n)
			}
		}
		if r := w.Deploy(deployArgs("s1", []string{"oa:80"}, []string{host}, nil)); r.Err != nil {
			w.Note("setup: %v", r.Err)
			return
		}
		// a sub-path service on the same host: its TLS flags are re-synced from s1 whenever the table is rebuilt
		w.AddTarget("sub:80")
		w.Deploy(deployArgs("s4", []string{"sub:80"}, []string{host}, []string{"/sub"}))
		// a service on a wildcard host: names resolved through it take the wildcard branch of the lookup
		if c.clients == "wildcard" {
			w.AddTarget("wild:80")
			w.Deploy(deployArgs("s5", []string{"wild:80"}, []string{"*.w.example.com"}, nil))
		}
		w.RolloutDeploy("s1", []string{"ra:80"})
		w.RolloutSet("s1", 50, []string{"v"})
		if c.pre == "paused" {
			w.Pause("s1", vD, 2500*time.Millisecond)
		}
		time.Sleep(100 * time.Millisecond)
		var wg vsync.WaitGroup
		spawn := func(tag string, f func()) {
			wg.Add(1)
			vsched.GoTagged(tag, func() {
				defer wg.Done()
				f()
			})
		}
		var upgr []string
		if strings.HasPrefix(c.clients, "upgrade") {
			// an upgraded connection is already established
			spawn("client", func() { w.Do(ReqSpec{ID: "up0", Host: host, Upgrade: true, Plan: "upgrade"}) })
			time.Sleep(50 * time.Millisecond)
			upgr = append(upgr, "oa:80")
		}
		if controlled {
			w.S.SetWindow(true)
		}
		if c.pre == "flap" {
			time.Sleep(t0 + 2*vI - w.Now())
		}
		spawn("cmd", func() { c18Do(w, c.a, 1) })
		if c.b != "none" {
			spawn("cmd", func() { c18Do(w, c.b, 2) })
		}
		switch c.clients {
		case "plain+cookie":
			spawn("client", func() { w.Do(ReqSpec{ID: "c-plain", Host: host}) })
			spawn("client", func() { w.Do(ReqSpec{ID: "c-cookie", Host: host, Cookie: "kamal-rollout=v"}) })
		case "one-plain":
			spawn("client", func() { w.Do(ReqSpec{ID: "c-plain", Host: host}) })
		case "one-cookie":
			spawn("client", func() { w.Do(ReqSpec{ID: "c-cookie", Host: host, Cookie: "kamal-rollout=v"}) })
		case "wildcard":
			spawn("client", func() { w.Do(ReqSpec{ID: "c-w1", Host: "x.w.example.com"}) })
			spawn("client", func() { w.Do(ReqSpec{ID: "c-w2", Host: "y.w.example.com"}) })
			spawn("client", func() { w.Do(ReqSpec{ID: "c-w3", Host: "x.w.example.com:8080", Path: "/again"}) })
		case "subpath":
			spawn("client", func() { w.Do(ReqSpec{ID: "c-sub1", Host: host, Path: "/sub/x"}) })
			spawn("client", func() { w.Do(ReqSpec{ID: "c-sub2", Host: host, Path: "/sub/y", Plan: "delay=200ms"}) })
		case "cookie+cookie":
			// two opted-in clients whose values are decided by the percentage (not the allowlist)
			spawn("client", func() { w.Do(ReqSpec{ID: "c-ck1", Host: host, Cookie: "kamal-rollout=user-1"}) })
			spawn("client", func() { w.Do(ReqSpec{ID: "c-ck2", Host: host, Cookie: "kamal-rollout=user-2"}) })
		case "upgrade+plain":
			spawn("client", func() { w.Do(ReqSpec{ID: "c-plain", Host: host, Plan: "delay=300ms"}) })
		case "slow":
			spawn("client", func() { w.Do(ReqSpec{ID: "c-slow", Host: host, Plan: "delay=2500ms"}) })
			spawn("client", func() { w.Do(ReqSpec{ID: "c-post", Host: host, Method: "POST", Body: []byte("abc")}) })
		}
		// upgraded connections end when the commands have drained them, or at the latest here
		if len(upgr) > 0 {
			vsched.GoTagged("closer", func() {
				time.Sleep(6 * time.Second)
				for _, t := range upgr {
					w.Net.CloseConnsOf(t)
				}
			})
		}
		wg.Wait()
		if controlled {
			w.S.SetWindow(false)
		}
		// the proxy must still answer commands and requests afterwards, also for the service the commands worked on
		w.List()
		w.Do(ReqSpec{ID: "after", Host: "b.example.com"})
		w.Resume("s1")
		w.Do(ReqSpec{ID: "after-s1", Host: host})
		if controlled && leak != nil {
			// nothing keeps running on behalf of targets that are no longer (or never were) in service
			from := w.Net.Mark("settle-start", "")
			time.Sleep(3*vI + 50*time.Millisecond)
			live := routerSummary(w.Router)
			for _, e := range w.Net.Events() {
				if e.Seq > from && (e.Kind == "probe" || e.Kind == "probe-refused") && !strings.Contains(live, e.Target) {
					(*leak)[e.Target]++
				}
			}
		}
	}
}

// c18DeployTimeoutDuringProbe: the deploy timeout of a deploy / rollout deploy expires while a probe of the new target
// is under way (answered 200, body not complete; or not answered at all): the command fails, nothing panics, and the
// proxy keeps serving.
func c18DeployTimeoutDuringProbe(cmd string, probe memnet.ProbeStep) *Scenario {
	sc := &Scenario{Name: fmt.Sprintf("C18 deploy timeout during a probe (%s) cmd=%s", probe.Kind, cmd), Horizon: 40 * time.Second, Bounds: &Bounds{D: 2, S: 0}}
	var c *CmdObs
	var after *ReqObs
	sc.Run = func(w *World) {
		c, after = nil, nil
		w.AddTarget("oa:80")
		w.AddTarget("slow:80", probe)
		w.Deploy(deployArgs("s1", []string{"oa:80"}, []string{"a.example.com"}, nil))
		time.Sleep(100 * time.Millisecond)
		var wg vsync.WaitGroup
		wg.Add(2)
		w.S.SetWindow(true)
		vsched.GoTagged("cmd", func() {
			defer wg.Done()
			if cmd == "deploy" {
				a := deployArgs("s1", []string{"slow:80"}, []string{"a.example.com"}, nil)
				a.DeployTimeout = vProbeTO - 150*time.Millisecond // expires while the first probe is still under way
				c = w.Deploy(a)
			} else {
				c = w.runCmd("rollout-deploy", "s1 [slow:80]", func() error {
					var r bool
					return w.Cmd.RolloutDeploy(RolloutDeployArgs{Service: "s1", TargetURLs: []string{"slow:80"}, DeployTimeout: vProbeTO - 150*time.Millisecond, DrainTimeout: vD}, &r)
				})
			}
		})
		vsched.GoTagged("client", func() {
			defer wg.Done()
			w.Do(ReqSpec{ID: "during", Host: "a.example.com"})
		})
		wg.Wait()
		w.S.SetWindow(false)
		time.Sleep(2 * vI)
		w.List()
		after = w.Do(ReqSpec{ID: "after", Host: "a.example.com"})
	}
	sc.Check = func(w *World) []Violation {
		var vs []Violation
		if c != nil && c.Done && c.Err == nil {
			vs = append(vs, Violation{"C18", "deploy-succeeded-without-a-completed-probe", fmt.Sprintf("%s returned nil although its deploy timeout expired during the first probe", c.Name)})
		}
		if after == nil || after.Status != 200 || after.ServedBy() != "oa:80" {
			s := "none"
			if after != nil {
				s = after.Summary()
			}
			vs = append(vs, Violation{"C18", "proxy-not-serving-after-failed-deploy", s})
		}
		return vs
	}
	return sc
}

func c18Scenario(c c18cfg) *Scenario {
	sc := &Scenario{Name: "C18 " + c.String(), Horizon: 40 * time.Second}
	leak := map[string]int{}
	body := c18Body(c, true, &leak)
	sc.Run = func(w *World) {
		leak = map[string]int{}
		body(w)
	}
	sc.Check = func(w *World) []Violation {
		var vs []Violation
		if len(leak) > 0 {
			vs = append(vs, Violation{"C18", fmt.Sprintf("probes-to-targets-not-in-service %s||%s", c.a, c.b), fmt.Sprintf("after both commands returned these targets are still probed although no service uses them: %v", leak)})
		}
		for _, n := range w.Notes {
			vs = append(vs, Violation{"C18", "setup", n})
		}
		for _, r := range w.Reqs {
			if !r.Done && !r.Hijacked {
				vs = append(vs, Violation{"C18", "request-never-answered", fmt.Sprintf("%s (thread %s)", r.ID, r.Thread)})
			}
		}
		return vs
	}
	return sc
}

func c18Configs(tier string) []c18cfg {
	var cfgs []c18cfg
	for i, a := range c18Cmds {
		for j, b := range c18Cmds {
			if j < i {
				continue
			}
			for k, cl := range []string{"plain+cookie", "upgrade+plain", "slow", "cookie+cookie", "subpath", "wildcard"} {
				if tier == "quick" && (i+j+k)%3 != 0 {
					continue
				}
				cfgs = append(cfgs, c18cfg{a, b, cl, "running"})
			}
			if tier != "quick" || (i+j)%4 == 0 {
				cfgs = append(cfgs, c18cfg{a, b, "plain+cookie", "paused"})
			}
			if tier != "quick" || (i+j)%3 == 1 {
				cfgs = append(cfgs, c18cfg{a, b, "plain+cookie", "flap"})
			}
		}
	}
	// the gate commands in both spawn orders (the default schedule runs the first one to completion first)
	for _, a := range []string{"pause", "stop", "resume"} {
		for _, b := range []string{"pause", "stop", "resume"} {
			if a != b {
				for _, pre := range []string{"running", "paused"} {
					cfgs = append(cfgs, c18cfg{a, b, "one-plain", pre})
				}
			}
		}
	}
	for _, a := range []string{"deploy-sick3", "rollout-deploy-sick3"} {
		cfgs = append(cfgs, c18cfg{a, "none", "one-plain", "running"}, c18cfg{a, "list", "one-plain", "running"})
	}
	// one command and one request: small enough for a deeper bound in the quick tier
	for _, a := range c18Cmds {
		for _, cl := range []string{"one-plain", "one-cookie"} {
			for _, pre := range []string{"running", "paused"} {
				if pre == "paused" && cl == "one-cookie" {
					continue
				}
				cfgs = append(cfgs, c18cfg{a, "none", cl, pre})
			}
		}
	}
	return cfgs
}

// ---- engine H part: every command in every sequential state (panics, hangs)

func c18HSpec(tier string) *HSpec {
	depth := 3
	if tier == "thorough" {
		depth = 4
	}
	alpha := []string{
		"deploy s1 h=a.example.com p=/", "deploy s1 h=a.example.com p=/ n=2 o=tls", "deploy s2 h=a.example.com p=/", "deploy s2 h=- p=/api",
		"deploy s1 h=a.example.com p=/ bad=unhealthy-all", "deploy s1 h=a.example.com p=/ bad=malformed-first", "deploy s1 h=a.example.com p=/ bad=cert",
		"rdeploy s1 n=1", "rdeploy s1 n=1 bad=unhealthy-all", "rset s1 pct=50 allow=v", "rstop s1",
		"pause s1 max=3000", "stop s1 msg=m3", "resume s1", "remove s1", "remove s2", "restart",
		"pause s2 max=3000", "resume s2", "rset s2 pct=1 allow=-",
	}
	spec := &HSpec{Prop: "C18", Name: "C18-H", Depth: depth, ExtendFailed: true,
		Obs:     ObsSpec{Hosts: []string{"a.example.com"}, Paths: []string{"/", "/api"}, Cookies: []string{"", "v"}, TLS: []bool{false, true}},
		Clauses: map[string]bool{},
	}
	spec.Alphabet = func(m *Model, d int) []string { return alpha }
	return spec
}

// ---- race companion pass (not model checking; see DESIGN.md section 4)

func c18RacePass(t *testing.T, job *Job, res *Result, tier string) {
	cfgs := c18Configs(tier)
	reps := 3
	if tier == "thorough" {
		reps = 10
	}
	n := 0
	for i, c := range cfgs {
		if i%job.NShards != job.Shard {
			continue
		}
		for r := 0; r < reps; r++ {
			n++
			body := c18Body(c, false, nil)
			synctest.Test(t, func(t *testing.T) {
				w := NewWorld(t, false)
				body(w)
				// stop every probe loop, end every connection
				func() {
					defer func() { recover() }()
					w.Router.serviceLock.RLock()
					svcs := []*Service{}
					for _, s := range w.Router.services.services {
						svcs = append(svcs, s)
					}
					w.Router.serviceLock.RUnlock()
					for _, s := range svcs {
						s.Dispose()
					}
				}()
				w.Finish()
				time.Sleep(30 * time.Second)
				synctest.Wait()
				w.Cleanup()
			})
		}
	}
	res.Extra["race_pass_runs"] = n
}

func checkC18(t *testing.T, job *Job, res *Result) {
	tier := job.Tier
	if job.Replay != nil {
		tier = job.Replay.Tier
	}
	if job.Opts["race"] == "1" {
		res.Engine = "race"
		c18RacePass(t, job, res, tier)
		res.Gen = &GenStats{Evaluations: 1}
		return
	}
	res.Rule = "engine S: every unordered pair of {deploy, redeploy with other hosts/paths, rollout deploy/set/stop, pause, stop, resume, remove, list, deploy of another service, conflicting deploy} running concurrently on a service with active+rollout targets and a split, with client threads {plain+cookie, established upgrade + slow request, slow + POST, two percentage-decided cookie requests, requests to a sub-path service of the same host, requests to names served through a wildcard host}, plus every single command with a single plain or opted-in request, from running, from paused and with probe results that change the deployed targets' state arriving at the instant the commands start; every schedule within the bounds; monitored: panic in any thread (incl. unlock of an unlocked mutex), deadlock (no thread enabled, none can be woken), hang (command or request unfinished at the horizon); engine H: every command (succeeding and failing) in every state reached by histories up to the depth bound; the data-race clause is covered by a separate free-running -race pass reported under race_pass (not exhaustive)"
	if job.Replay == nil || job.Replay.Engine == "S" {
		var scs []*Scenario
		for i, c := range c18Configs(tier) {
			sc := c18Scenario(c)
			if tier == "quick" && i%45 == 0 {
				sc.Bounds = &Bounds{D: 2, S: 0}
			}
			if c.b != "none" && c.clients == "one-plain" {
				sc.Bounds = &Bounds{D: 2, S: 0}
			}
			if c.b == "none" {
				sc.Bounds = &Bounds{D: 3, S: 0}
				if tier == "quick" {
					sc.Bounds = &Bounds{D: 2, S: 1, SAlone: true}
				}
			}
			scs = append(scs, sc)
		}
		for _, cmd := range []string{"deploy", "rollout-deploy"} {
			for _, pr := range []memnet.ProbeStep{pStallBody(), pHang(), pSlow()} {
				scs = append(scs, c18DeployTimeoutDuringProbe(cmd, pr))
			}
		}
		b := Bounds{D: 1, S: 1, Total: 1}
		res.Bounds = "quick: every configuration with <=1 deviation (thread or stall), every 45th configuration with <=2 thread deviations; single command + single request configurations with <=2 deviations"
		if tier == "thorough" {
			b = Bounds{D: 2, S: 1, Total: 2}
		}
		runS(t, job, res, "C18", scs, b, 20000)
		if tier == "quick" {
			res.Bounds = "every configuration with <=1 deviation (thread or stall); every 45th configuration with <=2 thread deviations; single command + single request configurations with <=2 deviations"
		}
	}
	if job.Replay == nil || job.Replay.Engine == "H" {
		exploreH(t, job, res, c18HSpec(tier))
	}
	res.Engine = "S+H"
}
