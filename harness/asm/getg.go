//go:build verif

package server

import "github.com/basecamp/kamal-proxy/internal/verif/vsched"

// verifGetg returns the address of the running goroutine's g (assembly).
func verifGetg() uintptr

func init() { vsched.GetG = verifGetg }
