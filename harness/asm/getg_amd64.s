#include "textflag.h"

// func verifGetg() uintptr
TEXT ·verifGetg(SB),NOSPLIT,$0-8
	MOVQ (TLS), AX
	MOVQ AX, ret+0(FP)
	RET
