//go:build verif

package server

import (
	"errors"
	"fmt"
	"strings"
	"testing"
	"time"

	"github.com/basecamp/kamal-proxy/internal/verif/vsched"
	"github.com/basecamp/kamal-proxy/internal/verif/vsync"
)

func init() { checks["C02"] = checkC02 }

type c02cfg struct {
	nOld, nNew  int
	clients     int // client threads
	perClient   int // requests per client thread
	inflight    bool
	redeploys   int
	changeHosts bool
	other       bool // a second, unrelated service exists
	slow        bool // two in-flight requests of different length and slow late arrivals
	offer       bool // the in-flight request offers a protocol upgrade the target does not take
	prior       bool // the old targets were drained before (pause cut off by its deadline, then resume); the replaced containers are stopped the moment the deploy returns
	conflict    bool // the redeploy also claims a host owned by another service and is rejected after its targets became healthy: the old set keeps serving
	stream      bool // the in-flight request's response has started (headers sent) and its body completes 1.5s into the drain; the service's target timeout is 1s
	subTLS      bool // the service lives on a sub-path of a host whose root-path service has TLS on; the clients use HTTPS
	lateProbe   bool // probe timeout > probe interval; the new targets' first probe hangs, later ones succeed; clients arrive on a time grid
}

func (c c02cfg) String() string {
	return fmt.Sprintf("old=%d new=%d clients=%dx%d inflight=%v redeploys=%d changeHosts=%v other=%v slow=%v offer=%v lateProbe=%v conflict=%v prior=%v", c.nOld, c.nNew, c.clients, c.perClient, c.inflight, c.redeploys, c.changeHosts, c.other, c.slow, c.offer, c.lateProbe, c.conflict, c.prior) + map[bool]string{true: " subTLS=true"}[c.subTLS] + map[bool]string{true: " streaming-inflight target-timeout=1s"}[c.stream]
}

func tnames(prefix string, n int) []string {
	var res []string
	for i := 0; i < n; i++ {
		res = append(res, fmt.Sprintf("%s%c:80", prefix, 'a'+i))
	}
	return res
}

func c02Scenario(c c02cfg) *Scenario {
	sc := &Scenario{Name: "C02 " + c.String(), Horizon: 90 * time.Second}
	allowed := map[string]bool{}
	sc.Run = func(w *World) {
		olds := tnames("o", c.nOld)
		for _, n := range olds {
			w.AddTarget(n)
			allowed[n] = true
		}
		gens := [][]string{}
		for g := 0; g < c.redeploys; g++ {
			ns := tnames(fmt.Sprintf("n%d", g), c.nNew)
			for _, n := range ns {
				if c.lateProbe {
					w.AddTarget(n, pHang(), pOK())
				} else {
					w.AddTarget(n)
				}
				allowed[n] = true
			}
			gens = append(gens, ns)
		}
		hosts := []string{"a.example.com"}
		var paths []string
		reqPath, reqTLS := "/", false
		if c.subTLS {
			w.AddTarget("root:80")
			fx := fixtures()
			ra := deployArgs("root", []string{"root:80"}, hosts, nil)
			ra.ServiceOptions.TLSEnabled = true
			ra.ServiceOptions.TLSCertificatePath, ra.ServiceOptions.TLSPrivateKeyPath = fx+"/cert.pem", fx+"/key.pem"
			if r := w.Deploy(ra); r.Err != nil {
				w.Note("setup deploy failed: %v", r.Err)
				return
			}
			paths, reqPath, reqTLS = []string{"/api"}, "/api/x", true
		}
		d0 := deployArgs("s1", olds, hosts, paths)
		if c.stream {
			d0.TargetOptions.ResponseTimeout = time.Second
		}
		if r := w.Deploy(d0); r.Err != nil {
			w.Note("setup deploy failed: %v", r.Err)
			return
		}
		if c.other {
			w.AddTarget("xa:80")
			if r := w.Deploy(deployArgs("s2", []string{"xa:80"}, []string{"b.example.com"}, nil)); r.Err != nil {
				w.Note("setup deploy failed: %v", r.Err)
				return
			}
		}
		time.Sleep(vI + vI/2) // one probe interval of settling
		var wg vsync.WaitGroup
		if c.prior {
			wg.Add(1)
			vsched.GoTagged("client", func() {
				defer wg.Done()
				w.Do(ReqSpec{ID: "prior", Host: "a.example.com", Path: reqPath, TLS: reqTLS, Plan: "hang"})
			})
			time.Sleep(100 * time.Millisecond)
			w.Pause("s1", vD, vMaxPause)
			w.Resume("s1")
			time.Sleep(vI/2 + 100*time.Millisecond)
		}
		if c.inflight {
			wg.Add(1)
			vsched.GoTagged("client", func() {
				defer wg.Done()
				spec := ReqSpec{ID: "inflight", Host: "a.example.com", Path: reqPath, TLS: reqTLS, Plan: "delay=1s"}
				if c.stream {
					spec.Plan = "stream=1600ms"
				}
				if c.offer {
					spec.Header = [][2]string{{"Connection", "Upgrade, HTTP2-Settings"}, {"Upgrade", "h2c"}, {"HTTP2-Settings", "AAMAAABkAARAAAAAAAIAAAAA"}}
				}
				w.Do(spec)
			})
			time.Sleep(100 * time.Millisecond) // it is now waiting for its target
		}
		if c.slow {
			for i, d := range []string{"delay=600ms", "delay=1600ms"} {
				wg.Add(1)
				id, plan := fmt.Sprintf("inflight%d", i), d
				vsched.GoTagged("client", func() {
					defer wg.Done()
					w.Do(ReqSpec{ID: id, Host: "a.example.com", Path: reqPath, TLS: reqTLS, Plan: plan})
				})
			}
			time.Sleep(100 * time.Millisecond)
		}
		w.S.SetWindow(true)
		wg.Add(1)
		vsched.GoTagged("cmd", func() {
			defer wg.Done()
			for g := 0; g < c.redeploys; g++ {
				a := deployArgs("s1", gens[g], hosts, paths)
				if c.stream {
					a.TargetOptions.ResponseTimeout = time.Second
				}
				if c.lateProbe {
					// as with the defaults (5s/1s) the probe timeout exceeds the interval
					a.TargetOptions.HealthCheckConfig.Timeout = 2*vI + vI/2
				}
				if c.changeHosts {
					a.ServiceOptions.Hosts = []string{"a.example.com", fmt.Sprintf("g%d.example.com", g)}
				}
				if c.conflict {
					a.ServiceOptions.Hosts = []string{"a.example.com", "b.example.com"} // b belongs to s2
				}
				w.Deploy(a)
				if c.prior {
					// what kamal does next: the replaced containers are stopped
					for _, n := range olds {
						if t := w.Net.Target(n); t != nil {
							t.RefuseRequests = true
							w.Net.CloseConnsOf(n)
						}
					}
				}
				w.Do(ReqSpec{ID: fmt.Sprintf("after%d", g), Host: "a.example.com", Path: reqPath, TLS: reqTLS})
			}
		})
		for k := 0; k < c.clients; k++ {
			wg.Add(1)
			k := k
			vsched.GoTagged("client", func() {
				defer wg.Done()
				for j := 0; j < c.perClient; j++ {
					spec := ReqSpec{ID: fmt.Sprintf("c%d.%d", k, j), Host: "a.example.com", Path: reqPath, TLS: reqTLS}
					if c.lateProbe {
						// arrival grid: around each probe tick and each possible probe timeout of the deploy
						time.Sleep(time.Duration(k)*vI + vI*6/10)
					}
					if c.slow {
						// arrive while the old targets are still draining and take long enough to outlive the drain
						time.Sleep(700 * time.Millisecond)
						spec.Plan = "delay=1300ms"
					}
					w.Do(spec)
				}
			})
		}
		wg.Wait()
		w.S.SetWindow(false)
		time.Sleep(2 * vI)
		w.Do(ReqSpec{ID: "final", Host: "a.example.com", Path: reqPath, TLS: reqTLS})
		if !c.conflict && c.redeploys > 0 {
			// the replaced containers are stopped once the deploys have returned (what kamal does next):
			// nothing may still be routed to them
			gone := append([]string{}, olds...)
			for g := 0; g+1 < len(gens); g++ {
				gone = append(gone, gens[g]...)
			}
			for _, n := range gone {
				if t := w.Net.Target(n); t != nil {
					t.RefuseRequests = true
					w.Net.CloseConnsOf(n)
				}
			}
			time.Sleep(time.Millisecond)
			w.Do(ReqSpec{ID: "final-after-old-stopped", Host: "a.example.com", Path: reqPath, TLS: reqTLS})
			w.Do(ReqSpec{ID: "final-after-old-stopped-2", Host: "a.example.com", Path: reqPath + "other", TLS: reqTLS})
		}
	}
	cfgConflict := c.conflict
	sc.Check = func(w *World) []Violation {
		var vs []Violation
		for _, n := range w.Notes {
			vs = append(vs, Violation{"C02", "setup", n})
		}
		for _, c := range w.Cmds {
			if c.Name == "pause" || c.Name == "resume" {
				continue
			}
			if c.Err != nil && !(cfgConflict && errors.Is(c.Err, ErrorHostInUse)) {
				vs = append(vs, Violation{"C02", "deploy-failed", fmt.Sprintf("%s %s: %v", c.Name, c.Args, c.Err)})
			}
		}
		evs := w.Net.Events()
		for _, r := range w.Reqs {
			if r.ID == "prior" {
				continue // cut off by the earlier pause
			}
			if !r.Done {
				vs = append(vs, Violation{"C02", "request-unfinished", r.ID})
				continue
			}
			if r.Status != 200 || r.ServedBy() == "" {
				sig := fmt.Sprintf("%d via %s", r.Status, lastSites(r.Sites, 2))
				if cfgConflict {
					// no target is replaced by a rejected redeploy, so nothing explains a draining or missing target
					sig = "rejected-redeploy " + sig
				}
				vs = append(vs, Violation{"C02", sig,
					fmt.Sprintf("request %s answered %d by the proxy itself (body %q) at %v; sites=%v", r.ID, r.Status, firstN(r.Body, 60), r.End, r.Sites)})
				continue
			}
			tgt := r.ServedBy()
			if !allowed[tgt] {
				vs = append(vs, Violation{"C02", "served-by-foreign-target", fmt.Sprintf("request %s served by %s", r.ID, tgt)})
			}
			if string(r.Body) != tgt {
				vs = append(vs, Violation{"C02", "body-modified", fmt.Sprintf("request %s body %q from %s", r.ID, firstN(r.Body, 60), tgt)})
			}
			seen := false
			for _, e := range evs {
				if e.Kind == "req" && e.ReqID == r.ID && e.Target == tgt {
					seen = true
				}
			}
			if !seen {
				vs = append(vs, Violation{"C02", "no-target-record", fmt.Sprintf("request %s claims %s but that target logged no such request", r.ID, tgt)})
			}
		}
		return vs
	}
	return sc
}

func lastSites(sites []string, n int) string {
	if len(sites) > n {
		sites = sites[len(sites)-n:]
	}
	return strings.Join(sites, ">")
}

func firstN(b []byte, n int) string {
	if len(b) > n {
		return string(b[:n]) + "..."
	}
	return string(b)
}

func c02Configs(tier string) []c02cfg {
	var cfgs []c02cfg
	if tier == "quick" {
		for _, sh := range [][2]int{{1, 1}, {2, 1}, {1, 2}} {
			for _, cl := range [][2]int{{1, 1}, {1, 2}, {2, 1}} {
				cfgs = append(cfgs, c02cfg{nOld: sh[0], nNew: sh[1], clients: cl[0], perClient: cl[1], redeploys: 1})
			}
		}
		cfgs = append(cfgs, c02cfg{nOld: 1, nNew: 1, clients: 1, perClient: 1, redeploys: 1, inflight: true})
		cfgs = append(cfgs, c02cfg{nOld: 1, nNew: 1, clients: 1, perClient: 1, redeploys: 1, changeHosts: true})
		cfgs = append(cfgs, c02cfg{nOld: 1, nNew: 1, clients: 1, perClient: 2, redeploys: 2})
		cfgs = append(cfgs, c02cfg{nOld: 1, nNew: 1, clients: 1, perClient: 1, redeploys: 1, other: true})
		cfgs = append(cfgs, c02cfg{nOld: 1, nNew: 1, clients: 1, perClient: 1, redeploys: 1, inflight: true, offer: true})
		cfgs = append(cfgs, c02cfg{nOld: 1, nNew: 1, clients: 1, perClient: 1, redeploys: 1, slow: true})
		cfgs = append(cfgs, c02cfg{nOld: 1, nNew: 1, clients: 2, perClient: 1, redeploys: 1, slow: true})
		cfgs = append(cfgs, c02cfg{nOld: 1, nNew: 1, clients: 4, perClient: 1, redeploys: 1, lateProbe: true})
		cfgs = append(cfgs, c02cfg{nOld: 1, nNew: 1, clients: 2, perClient: 1, redeploys: 1, inflight: true, other: true, conflict: true})
		cfgs = append(cfgs, c02cfg{nOld: 1, nNew: 1, clients: 0, perClient: 0, redeploys: 1, inflight: true, prior: true})
		cfgs = append(cfgs, c02cfg{nOld: 1, nNew: 1, clients: 2, perClient: 1, redeploys: 1, subTLS: true})
		cfgs = append(cfgs, c02cfg{nOld: 1, nNew: 1, clients: 1, perClient: 1, redeploys: 1, inflight: true, stream: true})
		return cfgs
	}
	for _, sh := range [][2]int{{1, 1}, {2, 1}, {1, 2}, {2, 2}} {
		for _, cl := range [][2]int{{1, 1}, {1, 2}, {2, 1}, {2, 2}, {3, 1}} {
			for _, inf := range []bool{false, true} {
				cfgs = append(cfgs, c02cfg{nOld: sh[0], nNew: sh[1], clients: cl[0], perClient: cl[1], redeploys: 1, inflight: inf})
			}
		}
	}
	for _, sh := range [][2]int{{1, 1}, {2, 1}, {1, 2}} {
		for _, cl := range [][2]int{{1, 1}, {1, 2}, {2, 1}} {
			cfgs = append(cfgs, c02cfg{nOld: sh[0], nNew: sh[1], clients: cl[0], perClient: cl[1], redeploys: 1, slow: true})
		}
	}
	for _, sh := range [][2]int{{1, 1}, {2, 1}, {1, 2}} {
		cfgs = append(cfgs, c02cfg{nOld: sh[0], nNew: sh[1], clients: 4, perClient: 1, redeploys: 1, lateProbe: true})
		cfgs = append(cfgs, c02cfg{nOld: sh[0], nNew: sh[1], clients: 5, perClient: 1, redeploys: 2, lateProbe: true})
	}
	for _, sh := range [][2]int{{1, 1}, {2, 1}} {
		for _, inf := range []bool{false, true} {
			cfgs = append(cfgs, c02cfg{nOld: sh[0], nNew: sh[1], clients: 2, perClient: 1, redeploys: 1, inflight: inf, other: true, conflict: true})
		}
	}
	for _, sh := range [][2]int{{1, 1}, {2, 1}} {
		cfgs = append(cfgs, c02cfg{nOld: sh[0], nNew: sh[1], clients: 0, perClient: 0, redeploys: 1, inflight: true, prior: true})
	}
	for _, sh := range [][2]int{{1, 1}, {2, 1}} {
		for _, inf := range []bool{false, true} {
			cfgs = append(cfgs, c02cfg{nOld: sh[0], nNew: sh[1], clients: 2, perClient: 1, redeploys: 1, inflight: inf, subTLS: true})
		}
	}
	for _, sh := range [][2]int{{1, 1}, {2, 1}} {
		cfgs = append(cfgs, c02cfg{nOld: sh[0], nNew: sh[1], clients: 2, perClient: 1, redeploys: 1, inflight: true, stream: true})
	}
	for _, ch := range []bool{false, true} {
		for _, ot := range []bool{false, true} {
			cfgs = append(cfgs, c02cfg{nOld: 1, nNew: 1, clients: 1, perClient: 2, redeploys: 2, changeHosts: ch, other: ot})
			cfgs = append(cfgs, c02cfg{nOld: 2, nNew: 1, clients: 2, perClient: 1, redeploys: 2, changeHosts: ch, other: ot})
		}
	}
	return cfgs
}

func checkC02(t *testing.T, job *Job, res *Result) {
	tier := job.Tier
	if job.Replay != nil {
		tier = job.Replay.Tier
	}
	var scs []*Scenario
	for _, c := range c02Configs(tier) {
		scs = append(scs, c02Scenario(c))
	}
	// no stalls: a stall can make a probe time out or an in-flight request
	// exceed the drain timeout, both of which excuse an error by the statement
	b := Bounds{D: 2, S: 0}
	if tier == "thorough" {
		b = Bounds{D: 3, S: 0}
	}
	res.Rule = "configurations = {old targets, new targets, client threads x requests, in-flight request, successive redeploys, host change, unrelated service}; per configuration every schedule of the real code with at most the stated number of deviations from the default schedule inside the window in which the redeploy and the client threads run; distinct = distinct canonical observation tuples (command results, per-request status/target/time)"
	runS(t, job, res, "C02", withReversed(scs), b, 0)
}
