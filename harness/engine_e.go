//go:build verif

package server

import (
	"fmt"
	"sort"
	"strings"
	"testing"
	"time"
)

// Engine E/F: exhaustive small-scope enumeration of inputs (or fault points)
// through the real handler chain. A case is a closure run on the main thread
// of a scenario world; cases are sharded over workers by index and batched
// into worlds.

type ECase struct {
	Name  string // replayable identity of the input
	Class string // coarse class (distinct-class count in the evidence)
	Run   func(w *World) []Violation
	// Weight is the number of elementary evaluations inside the case (default 1)
	Weight int
}

type ESpec struct {
	Prop  string
	Setup func(w *World) error
	Cases []ECase
	Batch int
	Log   bool
}

func runE(t *testing.T, job *Job, res *Result, spec *ESpec) {
	if res.Engine == "" {
		res.Engine = "E"
	}
	g := res.Gen
	if g == nil {
		g = &GenStats{Histogram: map[string]int{}, DistinctKeys: map[string]struct{}{}}
		res.Gen = g
	}
	found := map[string]*Found{}
	for _, f := range g.Found {
		found[f.Property+"|"+f.Signature] = f
	}
	nsh := job.NShards
	if nsh <= 0 {
		nsh = 1
	}
	var mine []int
	if job.Replay != nil {
		for i, c := range spec.Cases {
			if c.Name == job.Replay.Input {
				mine = append(mine, i)
			}
		}
		if len(mine) == 0 {
			g.Infra = append(g.Infra, "replay input not found: "+job.Replay.Input)
			return
		}
	} else {
		rot := int(((job.Seed % int64(len(spec.Cases)+1)) + int64(len(spec.Cases)+1)) % int64(len(spec.Cases)+1))
		for k := range spec.Cases {
			i := (k + rot) % len(spec.Cases)
			if i%nsh == job.Shard {
				mine = append(mine, i)
			}
		}
	}
	batch := spec.Batch
	if batch <= 0 {
		batch = 100
	}
	budget := time.Duration(job.BudgetS) * time.Second
	if budget <= 0 {
		budget = 100 * time.Second
	}
	deadline := time.Now().Add(budget)
	for start := 0; start < len(mine); start += batch {
		if time.Now().After(deadline) {
			g.Capped = true
			g.CapNote = fmt.Sprintf("wall-clock budget reached after %d of %d cases of this shard", start, len(mine))
			break
		}
		end := start + batch
		if end > len(mine) {
			end = len(mine)
		}
		idxs := mine[start:end]
		type caseViol struct {
			idx int
			v   Violation
		}
		var viols []caseViol
		current := -1 // the case being run (a case that never returns is a hang of the code under test)
		sc := &Scenario{Name: spec.Prop + " batch", Horizon: 15 * time.Minute, Log: spec.Log}
		sc.Run = func(w *World) {
			if spec.Setup != nil {
				if err := spec.Setup(w); err != nil {
					w.Note("setup: %v", err)
					return
				}
			}
			for _, i := range idxs {
				current = i
				for _, v := range spec.Cases[i].Run(w) {
					viols = append(viols, caseViol{i, v})
				}
			}
			current = -1
		}
		sc.Check = func(w *World) []Violation {
			var vs []Violation
			for _, n := range w.Notes {
				vs = append(vs, Violation{spec.Prop, "setup", n})
			}
			return vs
		}
		sc.Outcome = func(w *World) string { return "" }
		r := runScenario(t, spec.Prop, sc, nil, false)
		if r.Infra != "" && current >= 0 && strings.Contains(r.Infra, "did not finish within its horizon") {
			// the case never returned: the request or command it issued hangs (15 virtual minutes)
			viols = append(viols, caseViol{current, Violation{spec.Prop, "hang: case never finished", fmt.Sprintf("%s: not finished after 15 virtual minutes", spec.Cases[current].Name)}})
		} else if r.Infra != "" {
			g.Infra = append(g.Infra, fmt.Sprintf("batch starting at case %q: %s", spec.Cases[idxs[0]].Name, r.Infra))
		}
		for _, i := range idxs {
			wt := spec.Cases[i].Weight
			if wt <= 0 {
				wt = 1
			}
			g.Evaluations += wt
			g.DistinctKeys[spec.Cases[i].Class] = struct{}{}
			g.Histogram[strings.SplitN(spec.Cases[i].Class, " ", 2)[0]]++
		}
		record := func(v Violation, name string) {
			k := v.Property + "|" + v.Signature
			f := found[k]
			if f == nil {
				f = &Found{Violation: v, Input: name, Scenario: spec.Prop}
				found[k] = f
			}
			f.Count++
			if job.Replay != nil {
				fmt.Printf("VIOLATED %s %s: %s\n", v.Property, v.Signature, v.Detail)
			}
		}
		for _, cv := range viols {
			record(cv.v, spec.Cases[cv.idx].Name)
		}
		for _, v := range r.Violations {
			// panics etc. of the batch as a whole
			record(v, spec.Cases[idxs[0]].Name)
		}
		if len(g.Samples) < 3 && len(idxs) > 0 {
			g.Samples = append(g.Samples, map[string]any{"input": spec.Cases[idxs[len(idxs)/2]].Name, "class": spec.Cases[idxs[len(idxs)/2]].Class})
		}
	}
	keys := make([]string, 0, len(found))
	for k := range found {
		keys = append(keys, k)
	}
	sort.Strings(keys)
	g.Found = nil
	for _, k := range keys {
		g.Found = append(g.Found, found[k])
	}
	g.Distinct = len(g.DistinctKeys)
}
