//go:build verif

package server

import (
	"bytes"
	"fmt"
	"strings"
	"testing"
	"time"

	"github.com/basecamp/kamal-proxy/internal/verif/memnet"
	"github.com/basecamp/kamal-proxy/internal/verif/vsched"
)

func init() { checks["C19"] = checkC19 }

type c19hdr struct {
	name string
	req  []string
	resp []string
}

var c19Hdrs = []c19hdr{
	{"none", nil, nil},
	{"present", []string{"X-Custom"}, []string{"X-Resp"}},
	{"absent", []string{"X-Absent"}, []string{"X-Not-There"}},
	{"repeated", []string{"X-Multi"}, []string{"Set-Cookie"}},
	{"non-canonical", []string{"x-custom"}, []string{"x-resp"}},
}

// services: per header config one plain service; plus special ones
func c19Setup(w *World) error {
	c13RawResponses(w.Net)
	fx := fixtures()
	for i, h := range c19Hdrs {
		t := fmt.Sprintf("lt%d:80", i)
		w.AddTarget(t).Responder = c15Responder
		a := deployArgs(fmt.Sprintf("ls%d", i), []string{t}, []string{fmt.Sprintf("l%d.example.com", i)}, nil)
		a.TargetOptions.LogRequestHeaders = append([]string(nil), h.req...)
		a.TargetOptions.LogResponseHeaders = append([]string(nil), h.resp...)
		if r := w.Deploy(a); r.Err != nil {
			return r.Err
		}
	}
	mk := func(svc, host, target string, f func(a *DeployArgs)) error {
		w.AddTarget(target).Responder = c15Responder
		a := deployArgs(svc, []string{target}, []string{host}, nil)
		if f != nil {
			f(&a)
		}
		if r := w.Deploy(a); r.Err != nil {
			return r.Err
		}
		return nil
	}
	if err := mk("tls", "tls.example.com", "tt:80", func(a *DeployArgs) {
		a.ServiceOptions.TLSEnabled = true
		a.ServiceOptions.TLSCertificatePath, a.ServiceOptions.TLSPrivateKeyPath = fx+"/cert.pem", fx+"/key.pem"
	}); err != nil {
		return err
	}
	if err := mk("buf", "buf.example.com", "bt:80", func(a *DeployArgs) {
		a.TargetOptions.BufferRequests, a.TargetOptions.BufferResponses = true, true
		a.TargetOptions.MaxMemoryBufferSize, a.TargetOptions.MaxRequestBodySize, a.TargetOptions.MaxResponseBodySize = 8, 16, 16
	}); err != nil {
		return err
	}
	if err := mk("stopped", "stopped.example.com", "st:80", nil); err != nil {
		return err
	}
	w.Stop("stopped", vD, "closed <now>")
	if err := mk("stoppedc", "stoppedc.example.com", "sct:80", func(a *DeployArgs) { a.ServiceOptions.ErrorPagePath = fx + "/pages" }); err != nil {
		return err
	}
	w.Stop("stoppedc", vD, "custom stop")
	if err := mk("paused", "paused.example.com", "pt:80", nil); err != nil {
		return err
	}
	if err := mk("drainme", "drain.example.com", "dt:80", nil); err != nil {
		return err
	}
	// a service whose only target turns unhealthy after deployment
	w.AddTarget("sick:80", pOK(), p500())
	if r := w.Deploy(deployArgs("sick", []string{"sick:80"}, []string{"sick.example.com"}, nil)); r.Err != nil {
		return r.Err
	}
	time.Sleep(vI + 100*time.Millisecond)
	return nil
}

type c19in struct {
	ending string
	method string
	query  string
	ownID  bool
	hdr    int
}

func (c c19in) name() string {
	return fmt.Sprintf("ending=%s %s q=%q ownID=%v hdr=%s", c.ending, c.method, c.query, c.ownID, c19Hdrs[c.hdr].name)
}

var c19seq int

func c19Run(c c19in) func(w *World) []Violation {
	return func(w *World) []Violation {
		var vs []Violation
		add := func(sig, d string) { vs = append(vs, Violation{"C19", sig, c.name() + ": " + d}) }
		c19seq++
		id := fmt.Sprintf("log-%d", c19seq)
		host := fmt.Sprintf("l%d.example.com", c.hdr)
		svc := fmt.Sprintf("ls%d", c.hdr)
		target := fmt.Sprintf("lt%d:80", c.hdr)
		path := "/p/a%20b"
		spec := ReqSpec{Method: c.method, Host: host, Path: path, ID: "-"}
		if c.query != "" {
			spec.Path += "?" + c.query
		}
		if c.ownID {
			spec.Header = append(spec.Header, [2]string{"X-Request-ID", id})
		}
		spec.Header = append(spec.Header, [2]string{"X-Custom", "cv-" + id}, [2]string{"X-Multi", "m1"}, [2]string{"X-Multi", "m2"}, [2]string{"X-Verif-Marker", id})
		wantSvc, wantTarget := svc, target
		wantStatus := 200
		threaded := ""
		fault := func(f string) { spec.Header = append(spec.Header, [2]string{"X-Fault", f}) }
		// "buffered-<ending>": the same ending on the service that buffers requests and responses
		ending := strings.TrimPrefix(c.ending, "buffered-")
		switch ending {
		case "served-0":
			spec.Plan = "r=r201"
			wantStatus = 201
		case "served-1":
			spec.Plan = "r=r404"
			wantStatus = 404
		case "served-100k":
			spec.Plan = "r=rbig"
		case "served-chunked":
			spec.Plan = "r=rchunk"
		case "served-cookies":
			spec.Plan = "r=r200"
		case "early-hints-then-404":
			spec.Plan = "r=rhints"
			wantStatus = 404
		case "no-service":
			spec.Host = "nobody.example.net"
			wantSvc, wantTarget, wantStatus = "", "", 404
		case "tls-refused":
			spec.TLS = true
			wantTarget, wantStatus = "", 503
		case "redirect":
			spec.Host = "tls.example.com"
			wantSvc, wantTarget, wantStatus = "tls", "", 301
		case "stopped":
			spec.Host = "stopped.example.com"
			wantSvc, wantTarget, wantStatus = "stopped", "", 503
		case "stopped-custom":
			spec.Host = "stoppedc.example.com"
			wantSvc, wantTarget, wantStatus = "stoppedc", "", 503
		case "no-healthy-target":
			spec.Host = "sick.example.com"
			wantSvc, wantTarget, wantStatus = "sick", "", 503
		case "413":
			spec.Host = "buf.example.com"
			spec.Method = "POST"
			spec.Body = bytes.Repeat([]byte("x"), 40)
			wantSvc, wantTarget, wantStatus = "buf", "bt:80", 413
		case "500-response-too-large":
			spec.Host = "buf.example.com"
			spec.Plan = "len=64"
			wantSvc, wantTarget, wantStatus = "buf", "bt:80", 500
		case "502-close":
			fault("r=cl;k=10;f=close")
			wantStatus = 502
		case "502-garbage":
			fault("r=cl;k=0;f=garbage")
			wantStatus = 502
		case "504-target-timeout":
			fault("r=cl;k=5;f=stall")
			wantStatus = 504
		case "cut-mid-body":
			fault("r=big;k=5000;f=close")
			wantStatus = 200
		case "client-abort-waiting":
			spec.Plan = "hang"
			spec.CancelAfter = 300 * time.Millisecond
			wantStatus = 499
		case "paused-released", "paused-out":
			spec.Host = "paused.example.com"
			wantSvc, wantTarget = "paused", "pt:80"
			threaded = c.ending
			if c.ending == "paused-out" {
				wantTarget, wantStatus = "", 504
			}
		case "drained-504":
			spec.Host = "drain.example.com"
			spec.Plan = "hang"
			wantSvc, wantTarget, wantStatus = "drainme", "dt:80", 504
			threaded = c.ending
		case "upgrade-closed-by-target":
			spec.Upgrade, spec.Plan = true, "upgrade"
			spec.Method = "GET"
			wantStatus = 101
			threaded = c.ending
		case "client-abort-during-drain":
			// the client gives up while a pause is draining the target (another request keeps the drain open)
			spec.Host = "drain.example.com"
			spec.Plan = "hang"
			spec.CancelAfter = 400 * time.Millisecond
			wantSvc, wantTarget, wantStatus = "drainme", "dt:80", 499
			threaded = c.ending
		case "refused-by-draining-target":
			// the only target of the service is draining when the request claims it (the state the open C02/C07
			// finding reaches by interleaving; set directly here): proxy-generated 503, no target used
			wantTarget, wantStatus = "", 503
			threaded = c.ending
		}
		if ending != c.ending {
			spec.Host = "buf.example.com"
			wantSvc = "buf"
			if wantTarget != "" {
				wantTarget = "bt:80"
			}
		}
		if c.method == "HEAD" && (strings.HasPrefix(c.ending, "upgrade") || c.ending == "413" || c.ending == "500-response-too-large" || c.ending == "cut-mid-body") {
			return nil
		}
		before := len(w.Log.Records)
		var o *ReqObs
		switch threaded {
		case "":
			o = w.Do(spec)
		case "paused-released":
			w.Pause("paused", vD, 5*time.Second)
			vsched.GoTagged("client", func() { o = w.Do(spec) })
			time.Sleep(400 * time.Millisecond)
			w.Resume("paused")
			time.Sleep(50 * time.Millisecond)
		case "paused-out":
			w.Pause("paused", vD, 700*time.Millisecond)
			vsched.GoTagged("client", func() { o = w.Do(spec) })
			time.Sleep(900 * time.Millisecond)
			w.Resume("paused")
			time.Sleep(10 * time.Millisecond)
		case "drained-504":
			vsched.GoTagged("client", func() { o = w.Do(spec) })
			time.Sleep(100 * time.Millisecond)
			w.Pause("drainme", 600*time.Millisecond, 5*time.Second)
			w.Resume("drainme")
			time.Sleep(10 * time.Millisecond)
		case "upgrade-closed-by-target":
			vsched.GoTagged("client", func() { o = w.Do(spec) })
			time.Sleep(100 * time.Millisecond)
			w.Net.CloseConnsOf(target)
			time.Sleep(50 * time.Millisecond)
		case "client-abort-during-drain":
			vsched.GoTagged("client", func() { o = w.Do(spec) })
			vsched.GoTagged("client", func() { w.Do(ReqSpec{ID: id + "-other", Host: "drain.example.com", Path: "/other", Plan: "delay=900ms"}) })
			time.Sleep(100 * time.Millisecond)
			w.Pause("drainme", 3*time.Second, 5*time.Second) // returns when the other request is done (0.9s); the abort happens at 0.4s
			w.Resume("drainme")
			time.Sleep(10 * time.Millisecond)
		case "refused-by-draining-target":
			var tg *Target
			w.Router.serviceLock.RLock()
			if sv := w.Router.services.Get(svc); sv != nil {
				if lb, _, _ := sv.loadBalancers(); lb != nil && len(lb.all) > 0 {
					tg = lb.all[0]
				}
			}
			w.Router.serviceLock.RUnlock()
			if tg == nil {
				add("scenario-mismatch ending="+c.ending, "no target")
				return vs
			}
			prev := tg.updateState(TargetStateDraining)
			o = w.Do(spec)
			tg.updateState(prev)
		}
		if o == nil || !o.Done {
			add("request-did-not-finish", fmt.Sprint(o))
			return vs
		}
		// the records of this request
		var ev *memnet.Event
		evs := w.Net.Events()
		for i := len(evs) - 1; i >= 0 && i >= len(evs)-800; i-- {
			if evs[i].Kind == "req" && evs[i].Header.Get("X-Verif-Marker") == id {
				ev = &evs[i]
				break
			}
		}
		w.Log.mu.Lock()
		recs := append([]map[string]any(nil), w.Log.Records[before:]...)
		w.Log.mu.Unlock()
		var mine []map[string]any
		for _, r := range recs {
			rid := fmt.Sprint(r["request_id"])
			if c.ownID && rid == id {
				mine = append(mine, r)
			} else if !c.ownID && ev != nil && rid == ev.Header.Get("X-Request-Id") {
				mine = append(mine, r)
			} else if !c.ownID && ev == nil && fmt.Sprint(r["host"]) == spec.Host && fmt.Sprint(r["path"]) == "/p/a b" {
				mine = append(mine, r)
			}
		}
		if len(mine) != 1 {
			add(fmt.Sprintf("records=%d ending=%s", len(mine), c.ending), fmt.Sprintf("expected exactly one access-log record, found %d among %d new records", len(mine), len(recs)))
			return vs
		}
		r := mine[0]
		chk := func(key string, want any) {
			if fmt.Sprint(r[key]) != fmt.Sprint(want) {
				add(fmt.Sprintf("field %s ending=%s", key, c.ending), fmt.Sprintf("record has %s=%v, expected %v (client saw %s)", key, r[key], want, o.Summary()))
			}
		}
		clientStatus := o.Status
		if o.Hijacked {
			clientStatus = 0
			if bytes.HasPrefix(o.Body, []byte("HTTP/1.1 101")) {
				clientStatus = 101
			}
		}
		if clientStatus != wantStatus {
			add(fmt.Sprintf("scenario-mismatch ending=%s", c.ending), fmt.Sprintf("client saw %d, the scenario expects %d", clientStatus, wantStatus))
			return vs
		}
		chk("status", clientStatus)
		if !o.Hijacked && c.method != "HEAD" {
			// (for HEAD net/http discards the body the handler writes: "bytes actually used" is ambiguous, not checked)
			chk("resp_content_length", len(o.Body))
		}
		chk("method", spec.Method)
		chk("host", spec.Host)
		chk("path", "/p/a b")
		chk("query", c.query)
		chk("service", wantSvc)
		chk("target", wantTarget)
		if c.ownID {
			chk("request_id", id)
		} else if ev != nil {
			chk("request_id", ev.Header.Get("X-Request-Id"))
		} else if fmt.Sprint(r["request_id"]) == "" {
			add("field request_id ending="+c.ending, "empty request id")
		}
		// no target used: nothing of a target's configured headers may be attributed to the request
		if wantTarget == "" && wantSvc == svc {
			for k := range r {
				if (strings.HasPrefix(k, "req_x_") || strings.HasPrefix(k, "resp_x_") || k == "resp_set_cookie") && c19Hdrs[c.hdr].name != "none" {
					add(fmt.Sprintf("field %s ending=%s", k, c.ending), fmt.Sprintf("no target served the request but the record carries %s=%v", k, r[k]))
				}
			}
		}
		// configured headers (only when the request was proxied by the lN service)
		if wantTarget == target {
			h := c19Hdrs[c.hdr]
			switch h.name {
			case "present", "non-canonical":
				chk("req_x_custom", "cv-"+id)
				if ev != nil && o.Header != nil {
					chk("resp_x_resp", strings.Join(o.Header["X-Resp"], ","))
				}
			case "absent":
				chk("req_x_absent", "")
				chk("resp_x_not_there", "")
			case "repeated":
				chk("req_x_multi", "m1,m2")
				if o.Header != nil {
					chk("resp_set_cookie", strings.Join(o.Header["Set-Cookie"], ","))
				}
			}
		}
		return vs
	}
}

func c19Cases(tier string) []ECase {
	endings := []string{"served-0", "served-1", "served-100k", "served-chunked", "served-cookies", "early-hints-then-404", "no-service", "tls-refused", "redirect", "stopped", "stopped-custom",
		"no-healthy-target", "413", "500-response-too-large", "502-close", "502-garbage", "504-target-timeout", "cut-mid-body", "client-abort-waiting",
		"paused-released", "paused-out", "drained-504", "upgrade-closed-by-target", "refused-by-draining-target", "client-abort-during-drain",
		"buffered-served-0", "buffered-served-cookies", "buffered-502-close", "buffered-504-target-timeout", "buffered-client-abort-waiting"}
	var cases []ECase
	for _, e := range endings {
		for _, m := range []string{"GET", "POST", "HEAD"} {
			for _, q := range []string{"", "a=1;b"} {
				for _, own := range []bool{true, false} {
					for hi := range c19Hdrs {
						in := c19in{e, m, q, own, hi}
						cases = append(cases, ECase{Name: in.name(), Class: fmt.Sprintf("%s %s hdr=%d", e, m, hi), Run: c19Run(in)})
					}
				}
			}
		}
	}
	return cases
}

func checkC19(t *testing.T, job *Job, res *Result) {
	tier := job.Tier
	if job.Replay != nil {
		tier = job.Replay.Tier
	}
	res.Rule = "30 endings (five of them repeated on a service that buffers requests and responses; served with 5 body shapes, 103 early hints before the final status, 404, TLS refused, redirect, stopped built-in/custom page, no healthy target, 413, 500 over limit, 502 close/garbage, 504 target timeout, cut mid-body, client abort (499), paused then released, paused-out 504, drained 504, upgrade closed by the target, refused by a draining target, client abort while a pause is draining the target) x method {GET, POST, HEAD} x query {none, a=1;b} x client request id given or not x 5 log-header configurations; slog default handler replaced by a capturing handler before Server.buildHandler; oracle: exactly one Request record per request with status, byte count, method, host, path, query, request id, service, target and configured headers equal to what the client and the target observed"
	res.Bounds = "see rule"
	runE(t, job, res, &ESpec{Prop: "C19", Setup: c19Setup, Cases: c19Cases(tier), Batch: 120, Log: true})
	// the same requests against a proxy restored from the state file those deployments wrote
	var restored []ECase
	for _, c := range c19Cases(tier) {
		c.Name = "restored " + c.Name
		c.Class = "restored " + c.Class
		restored = append(restored, c)
	}
	runE(t, job, res, &ESpec{Prop: "C19", Setup: func(w *World) error {
		if err := c19Setup(w); err != nil {
			return err
		}
		if err := w.Restart(); err != nil {
			return err
		}
		// restored targets are presumed healthy until their first probe: let it happen
		time.Sleep(vI + vI/2)
		return nil
	}, Cases: restored, Batch: 120, Log: true})
	res.Rule += "; the whole matrix a second time on a proxy restored from the state file"
}
