//go:build verif

package server

import (
	"fmt"
	"sort"
	"strings"
	"testing"
	"time"

	"github.com/basecamp/kamal-proxy/internal/verif/memnet"
	"github.com/basecamp/kamal-proxy/internal/verif/vsched"
	"github.com/basecamp/kamal-proxy/internal/verif/vsync"
)

func init() { checks["C09"] = checkC09 }

type c09cfg struct {
	scripts []string // per target: 4 characters over {o,f}: outcome of the probes after deployment
	kinds   []string // failure kind per target
	clients int
	// slowSecond: the probe timeout (2.5 intervals) exceeds the interval and every target's second probe answers 2xx only after
	// 1.3 intervals; the scripts describe the probes after it
	slowSecond bool
	// lateLast: the last target fails its first lateLast probes, so the deploy keeps waiting for it while the other
	// targets (already healthy) go through their scripts
	lateLast int
}

func (c c09cfg) String() string {
	r := fmt.Sprintf("targets=%d scripts=%s kinds=%s clients=%d", len(c.scripts), strings.Join(c.scripts, ","), strings.Join(c.kinds, ","), c.clients)
	if c.slowSecond {
		r += " slowSecond"
	}
	if c.lateLast > 0 {
		r += fmt.Sprintf(" lateLast=%d", c.lateLast)
	}
	return r
}

func c09Configs(tier string) []c09cfg {
	var all []string
	for i := 0; i < 16; i++ {
		s := ""
		for b := 3; b >= 0; b-- {
			if i>>b&1 == 1 {
				s += "f"
			} else {
				s += "o"
			}
		}
		all = append(all, s)
	}
	changes := func(s string) int {
		n := 0
		prev := byte('o')
		for i := 0; i < len(s); i++ {
			if s[i] != prev {
				n++
			}
			prev = s[i]
		}
		return n
	}
	kinds := []string{"refuse", "500", "slow"}
	var cfgs []c09cfg
	for i, s := range all {
		cfgs = append(cfgs, c09cfg{[]string{s}, []string{kinds[i%3]}, 1, false, 0})
	}
	for i, a := range all {
		for j, b := range all {
			if tier == "quick" && changes(a)+changes(b) > 3 {
				continue
			}
			cfgs = append(cfgs, c09cfg{[]string{a, b}, []string{kinds[i%3], kinds[(j+1)%3]}, 1, false, 0})
		}
	}
	for i, a := range all {
		for j, b := range all {
			for k, c := range all {
				lim := 2
				if tier == "quick" {
					lim = 1
				}
				if changes(a) > lim || changes(b) > lim || changes(c) > lim {
					continue
				}
				if tier == "quick" && (i+j+k)%4 != 0 {
					continue
				}
				cfgs = append(cfgs, c09cfg{[]string{a, b, c}, []string{kinds[i%3], kinds[(j+1)%3], kinds[(k+2)%3]}, 1, false, 0})
			}
		}
	}
	// two targets change state at the same probe tick while a third one does not (so that no later
	// notification repairs a lost one), in every position of the target list
	for _, pat := range [][2]string{{"offf", "oooo"}, {"ffoo", "oooo"}, {"offf", "ffff"}, {"ffoo", "ffff"}, {"ofoo", "oooo"}} {
		for pos := 0; pos < 3; pos++ {
			sc := []string{pat[0], pat[0], pat[0]}
			sc[pos] = pat[1]
			for _, k := range []string{"refuse", "500"} {
				cfgs = append(cfgs, c09cfg{sc, []string{k, k, k}, 1, false, 0})
			}
		}
	}
	// a probe that takes longer than the interval (but not longer than its timeout) followed by quick ones with the opposite outcome:
	// results must take effect in the order the probes were sent
	for _, sc := range [][]string{{"fffo"}, {"ffoo"}, {"fffo", "oooo"}, {"oooo", "fffo"}} {
		ks := []string{"500", "refuse"}[:len(sc)]
		cfgs = append(cfgs, c09cfg{scripts: sc, kinds: ks, clients: 1, slowSecond: true})
	}
	// a target that became healthy early fails again while the deploy is still waiting for a slower one
	for _, sc := range [][]string{{"ffff", "oooo"}, {"ffoo", "oooo"}, {"ffff", "oooo", "oooo"}, {"oooo", "ffff", "oooo"}} {
		ks := []string{"500", "refuse", "500"}[:len(sc)]
		cfgs = append(cfgs, c09cfg{scripts: sc, kinds: ks, clients: 1, lateLast: 2})
	}
	if tier != "quick" {
		n := len(cfgs)
		for i := 0; i < n; i += 5 {
			c := cfgs[i]
			if len(c.scripts) >= 2 {
				c.clients = 2
				cfgs = append(cfgs, c)
			}
		}
	}
	return cfgs
}

var busySites = map[string]bool{
	"probe-recv": true, "(*Target).withInflightLock": true, "(*LoadBalancer).updateHealthyTargets": true, "(*Target).State": true,
}

type c09req struct {
	obs  *ReqObs
	busy bool
}

func c09Scenario(c c09cfg) *Scenario {
	sc := &Scenario{Name: "C09 " + c.String(), Horizon: 60 * time.Second}
	const host = "a.example.com"
	k := len(c.scripts)
	names := tnames("t", k)
	var marks []*c09req
	var t0, endAt time.Duration
	sc.Run = func(w *World) {
		marks = nil
		for i, n := range names {
			steps := []memnet.ProbeStep{pOK()}
			if c.lateLast > 0 && i == len(names)-1 {
				steps = nil
				for x := 0; x < c.lateLast; x++ {
					steps = append(steps, p500())
				}
				steps = append(steps, pOK())
			}
			if c.slowSecond {
				steps = append(steps, pOKAfter(vI+3*vI/10))
			}
			for _, ch := range c.scripts[i] {
				if ch == 'o' {
					steps = append(steps, pOK())
				} else {
					steps = append(steps, failStep(c.kinds[i]))
				}
			}
			steps = append(steps, pOK())
			w.AddTarget(n, steps...)
		}
		t0 = w.Now()
		da := deployArgs("s1", names, []string{host}, nil)
		if c.slowSecond {
			da.TargetOptions.HealthCheckConfig.Timeout = 2*vI + vI/2
		}
		if r := w.Deploy(da); r.Err != nil {
			w.Note("setup: %v", r.Err)
			return
		}
		var wg vsync.WaitGroup
		w.S.SetWindow(true)
		for cl := 0; cl < c.clients; cl++ {
			wg.Add(1)
			cl := cl
			vsched.GoTagged("client", func() {
				defer wg.Done()
				for j := 0; j < 5; j++ {
					at := t0 + time.Duration(j)*vI + 600*time.Millisecond + time.Duration(cl)*50*time.Millisecond
					if d := at - w.Now(); d > 0 {
						time.Sleep(d)
					}
					for q := 0; q < 2*k+1; q++ {
						busy := false
						for _, th := range w.S.Threads() {
							if th.Parked && busySites[th.Site] && th.Tag != "client" {
								busy = true
							}
						}
						o := w.Do(ReqSpec{ID: fmt.Sprintf("c%d.%d.%d", cl, j, q), Host: host})
						w.mu.Lock()
						marks = append(marks, &c09req{o, busy})
						w.mu.Unlock()
					}
				}
			})
		}
		wg.Wait()
		w.S.SetWindow(false)
		endAt = w.Now()
	}
	sc.Check = func(w *World) []Violation {
		var vs []Violation
		for _, n := range w.Notes {
			vs = append(vs, Violation{"C09", "setup", n})
		}
		if len(vs) > 0 {
			return vs
		}
		evs := w.Net.Events()
		// healthy set as a function of the sequence number
		type pr struct {
			seq    int
			sent   int // sequence number of the probe's send event
			target string
			ok     bool
		}
		var prs []pr
		for _, e := range evs {
			if e.Kind == "probe-result" {
				prs = append(prs, pr{e.Seq, e.Conn, e.Target, e.Status >= 200 && e.Status <= 299})
			}
		}
		// a target's state is the outcome of its latest probe: of the probes answered so far the one sent last
		// (the two notions coincide as long as a target has one probe outstanding at a time)
		healthyAt := func(seq int) map[string]bool {
			h := map[string]bool{}
			lastSent := map[string]int{}
			for _, p := range prs {
				if p.seq < seq && p.sent >= lastSent[p.target] {
					h[p.target] = p.ok
					lastSent[p.target] = p.sent
				}
			}
			res := map[string]bool{}
			for t, ok := range h {
				if ok {
					res[t] = true
				}
			}
			return res
		}
		key := func(h map[string]bool) string { return strings.Join(sortedKeys(h), ",") }
		sort.Slice(marks, func(i, j int) bool { return marks[i].obs.StartSeq < marks[j].obs.StartSeq })
		// fairness runs (single client only)
		var runKey string
		runCounts := map[string]int{}
		flush := func() {
			if runKey != "" && len(runCounts) >= 0 {
				members := strings.Split(runKey, ",")
				n := 0
				for _, m := range members {
					n += runCounts[m]
				}
				lo, hi := n/len(members), (n+len(members)-1)/len(members)
				for _, m := range members {
					if runCounts[m] < lo || runCounts[m] > hi {
						vs = append(vs, Violation{"C09", "unfair-rotation", fmt.Sprintf("healthy set {%s} served %v over %d consecutive requests", runKey, runCounts, n)})
						break
					}
				}
			}
			runKey = ""
			runCounts = map[string]int{}
		}
		for _, m := range marks {
			o := m.obs
			if !o.Done {
				continue
			}
			hb, ha := healthyAt(o.StartSeq), healthyAt(o.EndSeq)
			if m.busy || key(hb) != key(ha) {
				flush()
				continue // overlaps the processing of a probe completion: either view is acceptable
			}
			if len(hb) == 0 {
				if o.Status != 503 || o.ServedBy() != "" {
					vs = append(vs, Violation{"C09", "request-sent-to-failing-target", fmt.Sprintf("no target healthy at seq %d but request %s got %s", o.StartSeq, o.ID, o.Summary())})
				}
				flush()
				continue
			}
			if o.Status != 200 || !hb[o.ServedBy()] {
				sig := "request-not-served-by-healthy-target"
				if o.ServedBy() != "" {
					sig = "request-sent-to-failing-target"
				} else if o.Status == 503 {
					sig = "503-although-a-target-is-healthy"
				}
				vs = append(vs, Violation{"C09", sig, fmt.Sprintf("healthy {%s} at seq %d but request %s got %s", key(hb), o.StartSeq, o.ID, o.Summary())})
				flush()
				continue
			}
			if c.clients == 1 {
				if key(hb) != runKey {
					flush()
					runKey = key(hb)
				}
				runCounts[o.ServedBy()]++
			}
		}
		flush()
		// probing cadence (exact on the virtual clock only without stalls)
		if !w.HadStall() && !c.slowSecond {
			end := endAt
			for _, n := range names {
				var times []time.Duration
				for _, e := range evs {
					if e.Target == n && (e.Kind == "probe" || e.Kind == "probe-refused") {
						times = append(times, e.At)
					}
				}
				want := 0
				for t := t0; t <= end; t += vI {
					want++
				}
				bad := len(times) != want
				for i := 0; !bad && i < len(times); i++ {
					if times[i] != t0+time.Duration(i)*vI {
						bad = true
					}
				}
				if bad {
					vs = append(vs, Violation{"C09", "probe-cadence", fmt.Sprintf("target %s probed at %v, expected every %v from %v to %v", n, times, vI, t0, end)})
				}
			}
		}
		return vs
	}
	return sc
}

// c09Concurrent: k healthy targets whose state does not change, several clients issuing requests at the same time:
// however the requests interleave, n requests give each target floor(n/k) or ceil(n/k).
func c09Concurrent(k, clients, per int) *Scenario {
	sc := &Scenario{Name: fmt.Sprintf("C09 concurrent-rotation targets=%d clients=%dx%d", k, clients, per), Horizon: 30 * time.Second}
	const host = "a.example.com"
	names := tnames("t", k)
	var reqs []*ReqObs
	sc.Run = func(w *World) {
		reqs = nil
		for _, n := range names {
			w.AddTarget(n)
		}
		if r := w.Deploy(deployArgs("s1", names, []string{host}, nil)); r.Err != nil {
			w.Note("setup: %v", r.Err)
			return
		}
		time.Sleep(vI/2 + 50*time.Millisecond)
		var wg vsync.WaitGroup
		w.S.SetWindow(true)
		for c := 0; c < clients; c++ {
			wg.Add(1)
			c := c
			vsched.GoTagged("client", func() {
				defer wg.Done()
				for j := 0; j < per; j++ {
					r := w.Do(ReqSpec{ID: fmt.Sprintf("c%d.%d", c, j), Host: host})
					w.mu.Lock()
					reqs = append(reqs, r)
					w.mu.Unlock()
				}
			})
		}
		wg.Wait()
		w.S.SetWindow(false)
	}
	sc.Check = func(w *World) []Violation {
		var vs []Violation
		for _, n := range w.Notes {
			vs = append(vs, Violation{"C09", "setup", n})
		}
		if len(vs) > 0 || w.HadStall() {
			return vs
		}
		counts := map[string]int{}
		n := 0
		for _, r := range reqs {
			if !r.Done || r.Status != 200 || r.ServedBy() == "" {
				vs = append(vs, Violation{"C09", "503-although-a-target-is-healthy", r.Summary()})
				continue
			}
			counts[r.ServedBy()]++
			n++
		}
		lo, hi := n/k, (n+k-1)/k
		for _, t := range names {
			if counts[t] < lo || counts[t] > hi {
				vs = append(vs, Violation{"C09", "unfair-rotation concurrent-requests", fmt.Sprintf("%d concurrent requests over %d healthy targets were served %v", n, k, counts)})
				break
			}
		}
		return vs
	}
	return sc
}

// c09DrainWindow: a target starts failing its probes while a pause is draining it (requests in flight keep the
// drain open over a probe tick); after the resume it keeps failing and must be taken out of the rotation.
func c09DrainWindow(recover bool) *Scenario {
	sc := &Scenario{Name: fmt.Sprintf("C09 probe outcome flips during a drain, recover=%v", recover), Horizon: 60 * time.Second}
	const host = "a.example.com"
	var late []*ReqObs
	sc.Run = func(w *World) {
		late = nil
		if recover {
			// failing before the drain, recovering during it: must be used again afterwards
			w.AddTarget("ta:80", pOK(), p500(), pOK())
		} else {
			w.AddTarget("ta:80", pOK(), pOK(), p500())
		}
		w.AddTarget("tb:80")
		t0 := w.Now()
		if r := w.Deploy(deployArgs("s1", []string{"ta:80", "tb:80"}, []string{host}, nil)); r.Err != nil {
			w.Note("setup: %v", r.Err)
			return
		}
		time.Sleep(t0 + vI + 300*time.Millisecond - w.Now())
		// one slow request per target keeps the drain open across the probe tick at 2 intervals
		for i := 0; i < 2; i++ {
			i := i
			vsched.GoTagged("client", func() { w.Do(ReqSpec{ID: fmt.Sprintf("slow%d", i), Host: host, Plan: "delay=1200ms"}) })
		}
		time.Sleep(200 * time.Millisecond)
		w.S.SetWindow(true)
		w.Pause("s1", 3*vD, vMaxPause) // returns when the slow requests are done (at about 2.5 intervals)
		w.Resume("s1")
		w.S.SetWindow(false)
		// after the next two probe ticks the rotation must reflect the probes
		time.Sleep(t0 + 4*vI + 300*time.Millisecond - w.Now())
		for i := 0; i < 4; i++ {
			late = append(late, w.Do(ReqSpec{ID: fmt.Sprintf("late%d", i), Host: host}))
		}
	}
	sc.Check = func(w *World) []Violation {
		var vs []Violation
		for _, n := range w.Notes {
			vs = append(vs, Violation{"C09", "setup", n})
		}
		if len(vs) > 0 || len(late) != 4 || w.HadStall() {
			return vs
		}
		counts := map[string]int{}
		for _, r := range late {
			counts[r.ServedBy()]++
		}
		if recover {
			if counts["ta:80"] != 2 || counts["tb:80"] != 2 {
				vs = append(vs, Violation{"C09", "recovered-target-not-used-again", fmt.Sprintf("ta recovered during the drain and has passed its probes since; 4 requests were served %v", counts)})
			}
		} else if counts["ta:80"] != 0 || counts["tb:80"] != 4 {
			vs = append(vs, Violation{"C09", "request-sent-to-failing-target", fmt.Sprintf("ta has failed every probe since the drain; 4 requests were served %v", counts)})
		}
		return vs
	}
	return sc
}

// c09StalledProbeBody: a probe is answered 200 at once but its body never completes (it ends at the probe timeout);
// the probes after it have the opposite outcome. The rotation must follow those later probes: a prober that is still
// waiting for the stalled body would never notice them.
func c09StalledProbeBody(thenFails bool) *Scenario {
	sc := &Scenario{Name: fmt.Sprintf("C09 probe body stalls, later probes fail=%v", thenFails), Horizon: 60 * time.Second}
	const host = "a.example.com"
	var late []*ReqObs
	sc.Run = func(w *World) {
		late = nil
		if thenFails {
			w.AddTarget("ta:80", pOK(), pStallBody(), p500())
		} else {
			// failing from the second probe on, a stalled 200 in between, healthy afterwards
			w.AddTarget("ta:80", pOK(), p500(), pStallBody(), pOK())
		}
		w.AddTarget("tb:80")
		t0 := w.Now()
		if r := w.Deploy(deployArgs("s1", []string{"ta:80", "tb:80"}, []string{host}, nil)); r.Err != nil {
			w.Note("setup: %v", r.Err)
			return
		}
		time.Sleep(t0 + 6*vI + 300*time.Millisecond - w.Now())
		for i := 0; i < 4; i++ {
			late = append(late, w.Do(ReqSpec{ID: fmt.Sprintf("late%d", i), Host: host}))
		}
	}
	sc.Check = func(w *World) []Violation {
		var vs []Violation
		for _, n := range w.Notes {
			vs = append(vs, Violation{"C09", "setup", n})
		}
		if len(vs) > 0 || len(late) != 4 || w.HadStall() {
			return vs
		}
		counts := map[string]int{}
		for _, r := range late {
			counts[r.ServedBy()]++
		}
		probes := 0
		for _, e := range w.Net.Events() {
			if e.Kind == "probe" && e.Target == "ta:80" {
				probes++
			}
		}
		if probes < 5 {
			vs = append(vs, Violation{"C09", "probing-stopped after-stalled-probe-body", fmt.Sprintf("ta was probed %d times in 6 intervals: the probe whose body stalled was never given up", probes)})
		}
		if thenFails {
			if counts["ta:80"] != 0 {
				vs = append(vs, Violation{"C09", "request-sent-to-failing-target after-stalled-probe-body", fmt.Sprintf("ta has failed every probe since the one whose body stalled; 4 requests were served %v", counts)})
			}
		} else if counts["ta:80"] != 2 || counts["tb:80"] != 2 {
			vs = append(vs, Violation{"C09", "recovered-target-not-used-again after-stalled-probe-body", fmt.Sprintf("ta has passed its probes since; 4 requests were served %v", counts)})
		}
		return vs
	}
	return sc
}

// c09AfterRefusedRedeploy: a redeploy of a service with rollout targets is refused for a host conflict (after its new
// target became healthy). The targets in service - active and rollout - keep being probed, so a rollout target that
// starts failing afterwards is taken out of the rotation.
func c09AfterRefusedRedeploy() *Scenario {
	sc := &Scenario{Name: "C09 rollout target fails after a refused redeploy of its service", Horizon: 60 * time.Second}
	var late []*ReqObs
	var refused *CmdObs
	sc.Run = func(w *World) {
		late, refused = nil, nil
		w.AddTarget("oa:80")
		w.AddTarget("xa:80")
		w.AddTarget("na:80")
		w.AddTarget("ra:80", pOK(), pOK(), pOK(), p500())
		t0 := w.Now()
		w.Deploy(deployArgs("s1", []string{"oa:80"}, []string{"a.example.com"}, nil))
		w.Deploy(deployArgs("s2", []string{"xa:80"}, []string{"b.example.com"}, nil))
		w.RolloutDeploy("s1", []string{"ra:80"})
		w.RolloutSet("s1", 0, []string{"v"})
		time.Sleep(500 * time.Millisecond)
		w.S.SetWindow(true)
		refused = w.Deploy(deployArgs("s1", []string{"na:80"}, []string{"a.example.com", "b.example.com"}, nil))
		w.S.SetWindow(false)
		time.Sleep(t0 + 5*vI + 300*time.Millisecond - w.Now())
		for i := 0; i < 2; i++ {
			late = append(late, w.Do(ReqSpec{ID: fmt.Sprintf("late-cookie%d", i), Host: "a.example.com", Cookie: "kamal-rollout=v"}))
			late = append(late, w.Do(ReqSpec{ID: fmt.Sprintf("late-plain%d", i), Host: "a.example.com"}))
		}
	}
	sc.Check = func(w *World) []Violation {
		var vs []Violation
		if refused == nil || refused.Err == nil || len(late) != 4 || w.HadStall() {
			return vs
		}
		probes := 0
		for _, e := range w.Net.Events() {
			if e.Kind == "probe" && e.Target == "ra:80" && e.Seq > refused.EndSeq {
				probes++
			}
		}
		if probes < 3 {
			vs = append(vs, Violation{"C09", "probing-stopped after-refused-redeploy", fmt.Sprintf("the rollout target of s1 got %d probes in the 4 intervals after a redeploy of s1 was refused (%v)", probes, refused.Err)})
		}
		for _, r := range late {
			if strings.Contains(r.ID, "cookie") && r.ServedBy() == "ra:80" {
				vs = append(vs, Violation{"C09", "request-sent-to-failing-target after-refused-redeploy", fmt.Sprintf("ra:80 has failed its probes since 3 intervals after deployment, yet %s", r.Summary())})
				break
			}
			if strings.Contains(r.ID, "plain") && (r.Status != 200 || r.ServedBy() != "oa:80") {
				vs = append(vs, Violation{"C09", "healthy-target-not-used after-refused-redeploy", r.Summary()})
				break
			}
		}
		return vs
	}
	return sc
}

// c09OverlappingDrains: two commands that drain the same healthy targets overlap (the first with the shorter drain
// timeout, a request in flight on every target); once both have returned and the service is resumed, every target has
// passed all its probes and no command is running: the rotation must use all of them before the next probe tick.
func c09OverlappingDrains(first, second string) *Scenario {
	sc := &Scenario{Name: fmt.Sprintf("C09 overlapping drains %s then %s, then resume", first, second), Horizon: 60 * time.Second}
	const host = "a.example.com"
	var late []*ReqObs
	sc.Run = func(w *World) {
		late = nil
		w.AddTarget("ta:80")
		w.AddTarget("tb:80")
		t0 := w.Now()
		if r := w.Deploy(deployArgs("s1", []string{"ta:80", "tb:80"}, []string{host}, nil)); r.Err != nil {
			w.Note("setup: %v", r.Err)
			return
		}
		time.Sleep(t0 + vI + 100*time.Millisecond - w.Now())
		for i := 0; i < 2; i++ {
			i := i
			vsched.GoTagged("client", func() { w.Do(ReqSpec{ID: fmt.Sprintf("slow%d", i), Host: host, Plan: "hang"}) })
		}
		time.Sleep(100 * time.Millisecond)
		run := func(cmd string, drain time.Duration) {
			if cmd == "pause" {
				w.Pause("s1", drain, vMaxPause)
			} else {
				w.Stop("s1", drain, "m")
			}
		}
		var wg vsync.WaitGroup
		wg.Add(2)
		w.S.SetWindow(true)
		vsched.GoTagged("cmd", func() { defer wg.Done(); run(first, 300*time.Millisecond) })
		time.Sleep(100 * time.Millisecond)
		vsched.GoTagged("cmd", func() { defer wg.Done(); run(second, vD) })
		wg.Wait()
		w.Resume("s1")
		w.S.SetWindow(false)
		if w.Now() >= t0+2*vI {
			return // (only with stalls) the next probe tick has passed
		}
		for i := 0; i < 4; i++ {
			late = append(late, w.Do(ReqSpec{ID: fmt.Sprintf("late%d", i), Host: host}))
		}
	}
	sc.Check = func(w *World) []Violation {
		var vs []Violation
		for _, n := range w.Notes {
			vs = append(vs, Violation{"C09", "setup", n})
		}
		if len(vs) > 0 || len(late) != 4 || w.HadStall() {
			return vs
		}
		counts := map[string]int{}
		for _, r := range late {
			if r.Status != 200 {
				counts[fmt.Sprintf("status %d via %s", r.Status, lastSites(r.Sites, 2))]++
			} else {
				counts[r.ServedBy()]++
			}
		}
		if counts["ta:80"] != 2 || counts["tb:80"] != 2 {
			vs = append(vs, Violation{"C09", "healthy-targets-not-all-used after-overlapping-drains", fmt.Sprintf("both targets passed every probe and no command is running; 4 requests after the resume were answered %v", counts)})
		}
		return vs
	}
	return sc
}

// c09DrainTimesOutOnOne: a pause / stop drains two healthy targets, one of them idle and the other with a request in
// flight that outlasts the drain timeout (so the two drains end differently: at once, and by the deadline). Both targets
// pass every probe throughout; once the command has returned and the service is resumed the rotation must use both.
func c09DrainTimesOutOnOne(cmd string, busy int) *Scenario {
	sc := &Scenario{Name: fmt.Sprintf("C09 %s whose drain times out on %d of 3 targets, then resume", cmd, busy), Horizon: 60 * time.Second}
	const host = "a.example.com"
	var late []*ReqObs
	names := []string{"ta:80", "tb:80", "tc:80"}
	sc.Run = func(w *World) {
		late = nil
		for _, n := range names {
			w.AddTarget(n)
		}
		t0 := w.Now()
		if r := w.Deploy(deployArgs("s1", names, []string{host}, nil)); r.Err != nil {
			w.Note("setup: %v", r.Err)
			return
		}
		time.Sleep(t0 + vI + 100*time.Millisecond - w.Now())
		for i := 0; i < busy; i++ {
			i := i
			vsched.GoTagged("client", func() { w.Do(ReqSpec{ID: fmt.Sprintf("slow%d", i), Host: host, Plan: "hang"}) })
		}
		time.Sleep(100 * time.Millisecond)
		w.S.SetWindow(true)
		if cmd == "pause" {
			w.Pause("s1", 300*time.Millisecond, vMaxPause)
		} else {
			w.Stop("s1", 300*time.Millisecond, "m")
		}
		w.Resume("s1")
		w.S.SetWindow(false)
		if w.Now() >= t0+2*vI {
			return // (only with stalls) the next probe tick has passed
		}
		for i := 0; i < 6; i++ {
			late = append(late, w.Do(ReqSpec{ID: fmt.Sprintf("late%d", i), Host: host}))
		}
	}
	sc.Check = func(w *World) []Violation {
		var vs []Violation
		for _, n := range w.Notes {
			vs = append(vs, Violation{"C09", "setup", n})
		}
		if len(vs) > 0 || len(late) != 6 || w.HadStall() {
			return vs
		}
		counts := map[string]int{}
		for _, r := range late {
			if r.Status != 200 {
				counts[fmt.Sprintf("status %d via %s", r.Status, lastSites(r.Sites, 2))]++
			} else {
				counts[r.ServedBy()]++
			}
		}
		for _, n := range names {
			if counts[n] != 2 {
				vs = append(vs, Violation{"C09", "healthy-targets-not-all-used after-drain-timeout", fmt.Sprintf("all three targets passed every probe and no command is running; 6 requests after the resume were answered %v", counts)})
				break
			}
		}
		return vs
	}
	return sc
}

func checkC09(t *testing.T, job *Job, res *Result) {
	tier := job.Tier
	if job.Replay != nil {
		tier = job.Replay.Tier
	}
	var scs []*Scenario
	for _, c := range c09Configs(tier) {
		scs = append(scs, c09Scenario(c))
	}
	for _, rec := range []bool{false, true} {
		sc := c09DrainWindow(rec)
		sc.Bounds = &Bounds{D: 1, S: 0}
		scs = append(scs, sc)
	}
	{
		sc := c09AfterRefusedRedeploy()
		sc.Bounds = &Bounds{D: 1, S: 0}
		scs = append(scs, sc)
	}
	for _, f := range []bool{true, false} {
		sc := c09StalledProbeBody(f)
		sc.Bounds = &Bounds{D: 1, S: 0}
		scs = append(scs, sc)
	}
	for _, x := range [][2]string{{"pause", "stop"}, {"pause", "pause"}, {"stop", "stop"}, {"stop", "pause"}} {
		sc := c09OverlappingDrains(x[0], x[1])
		sc.Bounds = &Bounds{D: 1, S: 0}
		scs = append(scs, sc)
	}
	for _, cmd := range []string{"pause", "stop"} {
		for busy := 1; busy <= 3; busy++ {
			sc := c09DrainTimesOutOnOne(cmd, busy)
			sc.Bounds = &Bounds{D: 1, S: 0}
			scs = append(scs, sc)
		}
	}
	for _, x := range [][3]int{{2, 2, 1}, {2, 2, 2}, {3, 2, 2}, {3, 3, 1}} {
		sc := c09Concurrent(x[0], x[1], x[2])
		sc.Bounds = &Bounds{D: 2, S: 0}
		scs = append(scs, sc)
	}
	b := Bounds{D: 1, S: 1, Total: 1}
	if tier == "thorough" {
		b = Bounds{D: 2, S: 1, Total: 2}
	}
	res.Rule = "configurations = 1..3 targets x per-target post-deploy probe script of length 4 over {ok, fail} (failure kinds refused/500/slow) x client threads issuing bursts of 2k+1 requests after every probe tick; per configuration every schedule within the deviation bounds; oracle: healthy set from probe results, membership, 503 when empty, strict rotation per run, probe cadence; plus 2-3 clients issuing requests concurrently at 2-3 steadily healthy targets (<=2 deviations): per-target counts within floor/ceil of n/k; plus a target whose probe outcome changes while a pause is draining it (requests in flight keep the drain open over a probe tick): after the resume the rotation follows the probes; plus a pause / stop whose drain ends at once on the idle targets and by its deadline on 1..3 busy ones of three: after the resume all three are used"
	runS(t, job, res, "C09", scs, b, 5000)
}
