//go:build verif

package server

import (
	"html"
	"fmt"
	"strings"
	"testing"
	"time"

	"github.com/basecamp/kamal-proxy/internal/verif/vsched"
	"github.com/basecamp/kamal-proxy/internal/verif/vsync"
)

func init() { checks["C08"] = checkC08 }

func c08Spec(tier string) *HSpec {
	depth := 4
	if tier == "thorough" {
		depth = 5
	}
	msgs := []string{"", "m1", "m2", "m3", "m4", "m5", "m6"}
	spec := &HSpec{
		Prop: "C08", Name: "C08", Depth: depth,
		Obs:     ObsSpec{Hosts: []string{"a.example.com"}, Paths: []string{"/", "/up", "/up/", "/x?up"}, Cookies: []string{"", "v"}, TLS: []bool{false}, Methods: []string{"GET", "POST"}},
		Clauses: map[string]bool{"routing": true, "gate": true, "target-set": true, "stop-message": true, "list": true},
	}
	spec.Alphabet = func(m *Model, d int) []string {
		if d == 0 {
			return []string{"deploy s1 h=a.example.com p=/ o=plain", "deploy s1 h=a.example.com p=/ o=pages", "deploy s1 h=a.example.com p=/ o=pages-no503", "deploy s1 h=a.example.com p=/ o=pages-ignore"}
		}
		s := m.Services["s1"]
		var res []string
		for _, mm := range msgs {
			res = append(res, "stop s1 msg="+mm)
		}
		res = append(res, "pause s1 max=20000", "resume s1", fmt.Sprintf("deploy s1 h=a.example.com p=/ o=%s", s.Opt), "rdeploy s1 n=1", "rset s1 pct=100 allow=-", "restart")
		var out []string
		for _, a := range res {
			h := &HWorld{World: &World{}, M: m.clone(), allNames: map[string]bool{}}
			if len(h.applyModel(parseOp(a))) > 0 {
				continue
			}
			if strings.HasPrefix(a, "resume") && s.Gate == "running" {
				continue
			}
			out = append(out, a)
		}
		return out
	}
	return spec
}

func checkC08(t *testing.T, job *Job, res *Result) {
	tier := job.Tier
	if job.Replay != nil {
		tier = job.Replay.Tier
	}
	spec := c08Spec(tier)
	res.Bounds = fmt.Sprintf("every history of up to %d commands", spec.Depth)
	res.Rule = "histories over {stop(m) for 7 messages incl. markup, template syntax, 300 bytes, non-ASCII; pause; resume; redeploy; rollout deploy; rollout set; restart} on one service deployed with {built-in pages, custom 503 showing the message, custom directory without 503, custom 503 ignoring the message}; after every history the probe set {GET,POST} x {/, health path, health path + '/', other path} x {no cookie, cookie}; oracle: gate model (503 except exact health GET = 200 without target contact), custom page iff present, message present HTML-escaped (independent escaper) and never verbatim when it contains markup, resume restores forwarding, redeploy keeps the state"
	if job.Replay == nil || job.Replay.Engine == "H" {
		exploreH(t, job, res, spec)
	}
	if job.Replay == nil || job.Replay.Engine == "S" {
		var scs []*Scenario
		for _, pre := range []string{"running", "stopped", "paused"} {
			for _, cmd := range []string{"stop", "resume", "pause"} {
				scs = append(scs, c08Scenario(c08cfg{pre, cmd}))
			}
		}
		for _, pre := range []string{"deployed", "resumed", "resumed-after-stop"} {
			for _, cmd := range []string{"stop", "pause"} {
				scs = append(scs, c08FirstRequests(pre, cmd))
			}
		}
		for _, second := range []string{"stop", "pause"} {
			scs = append(scs, c08OverlappingStops(second))
		}
		scs = append(scs, c08TwoStoppedServices())
		scs = append(scs, c08HeldThenStopped(false, false), c08HeldThenStopped(true, false), c08HeldThenStopped(false, true))
		b := Bounds{D: 2, S: 0}
		runS(t, job, res, "C08", withReversed(scs), b, 0)
	}
	res.Engine = "S+H"
	res.Rule += "; stop/pause racing with the first requests after a deploy or a resume; afterwards every request must meet the closed gate; a stop whose drain is still waiting for a request that never finishes overlapped by a second stop/pause from another operator, then resume: the message of the later stop is shown while stopped and forwarding is restored by the resume; two stopped services and an unknown host asked concurrently by clients that take the response slowly: each gets its own page"
	res.Rule += "; engine S part: stop/resume/pause completing while the same service is being redeployed (from running, stopped, paused), every schedule with <=2 thread deviations; afterwards requests and list must show the state the gate command set"
}

// c08FirstRequests: the first requests a service sees after being deployed (or resumed) race with stop / pause;
// once the command has returned, no request may pass.
func c08FirstRequests(pre, cmd string) *Scenario {
	sc := &Scenario{Name: fmt.Sprintf("C08-S first requests after %s || %s", pre, cmd), Horizon: 60 * time.Second}
	const host = "a.example.com"
	var racers, after []*ReqObs
	var health *ReqObs
	sc.Run = func(w *World) {
		racers, after, health = nil, nil, nil
		w.AddTarget("oa:80")
		if r := w.Deploy(deployArgs("s1", []string{"oa:80"}, []string{host}, nil)); r.Err != nil {
			w.Note("setup: %v", r.Err)
			return
		}
		switch pre {
		case "resumed":
			w.Pause("s1", vD, 20*time.Second)
			w.Resume("s1")
		case "resumed-after-stop":
			w.Stop("s1", vD, "before")
			w.Resume("s1")
		}
		time.Sleep(100 * time.Millisecond)
		var wg vsync.WaitGroup
		w.S.SetWindow(true)
		for i := 0; i < 2; i++ {
			wg.Add(1)
			i := i
			vsched.GoTagged("client", func() {
				defer wg.Done()
				r := w.Do(ReqSpec{ID: fmt.Sprintf("first%d", i), Host: host, Path: "/"})
				w.mu.Lock()
				racers = append(racers, r)
				w.mu.Unlock()
			})
		}
		wg.Add(1)
		vsched.GoTagged("cmd", func() {
			defer wg.Done()
			if cmd == "stop" {
				w.Stop("s1", vD, "closed <now>")
			} else {
				w.Pause("s1", vD, 20*time.Second)
			}
		})
		wg.Wait()
		w.S.SetWindow(false)
		time.Sleep(50 * time.Millisecond)
		for i := 0; i < 2; i++ {
			i := i
			vsched.GoTagged("client", func() {
				r := w.Do(ReqSpec{ID: fmt.Sprintf("after%d", i), Host: host, Path: "/x"})
				w.mu.Lock()
				after = append(after, r)
				w.mu.Unlock()
			})
		}
		health = w.Do(ReqSpec{ID: "health", Host: host, Path: vHealthPath})
		time.Sleep(50 * time.Millisecond)
	}
	sc.Check = func(w *World) []Violation {
		var vs []Violation
		for _, n := range w.Notes {
			vs = append(vs, Violation{"C08", "setup", n})
		}
		for _, cm := range w.Cmds {
			if cm.Err != nil {
				vs = append(vs, Violation{"C08", "command-failed", cm.Name + ": " + cm.Err.Error()})
			}
		}
		if len(vs) > 0 {
			return vs
		}
		w.mu.Lock()
		defer w.mu.Unlock()
		for _, r := range after {
			if r.Status == 200 && r.ServedBy() != "" {
				vs = append(vs, Violation{"C08", "request-forwarded-after-" + cmd + "-returned", fmt.Sprintf("after %s (which raced with the first requests since the service was %s) request %s was forwarded to %s", cmd, pre, r.ID, r.ServedBy())})
			} else if cmd == "stop" && !(r.Status == 503 && strings.Contains(string(r.Body), "closed &lt;now&gt;")) {
				vs = append(vs, Violation{"C08", "stop-message-missing-or-not-escaped", fmt.Sprintf("request %s after the stop got %s", r.ID, r.Summary())})
			}
		}
		if cmd == "stop" && len(after) != 2 {
			vs = append(vs, Violation{"C08", "request-not-answered-while-stopped", fmt.Sprintf("%d of 2 requests answered", len(after))})
		}
		// (paused: the requests are held; they are answered 504 when their max-pause expires during teardown)
		if health == nil || health.Status != 200 || health.ServedBy() != "" {
			vs = append(vs, Violation{"C08", "health-check-GET-not-answered-by-proxy", fmt.Sprint(health != nil && health.Done)})
		}
		return vs
	}
	return sc
}

// c08TwoStoppedServices: two stopped services with different messages (and an unknown host) are asked at the same
// time by clients that take their responses slowly; every client must see the page of its own service.
func c08TwoStoppedServices() *Scenario {
	sc := &Scenario{Name: "C08-S two stopped services, slow clients", Horizon: 30 * time.Second}
	var r1, r2, r3 *ReqObs
	sc.Run = func(w *World) {
		r1, r2, r3 = nil, nil, nil
		w.AddTarget("oa:80")
		w.AddTarget("ob:80")
		w.Deploy(deployArgs("s1", []string{"oa:80"}, []string{"a.example.com"}, nil))
		w.Deploy(deployArgs("s2", []string{"ob:80"}, []string{"b.example.com"}, nil))
		w.Stop("s1", vD, "message of one <1>")
		w.Stop("s2", vD, "message of two <2>")
		time.Sleep(100 * time.Millisecond)
		var wg vsync.WaitGroup
		w.S.SetWindow(true)
		wg.Add(3)
		vsched.GoTagged("client", func() {
			defer wg.Done()
			r1 = w.Do(ReqSpec{ID: "one", Host: "a.example.com", Path: "/", SlowClient: true})
		})
		vsched.GoTagged("client", func() {
			defer wg.Done()
			r2 = w.Do(ReqSpec{ID: "two", Host: "b.example.com", Path: "/", SlowClient: true})
		})
		vsched.GoTagged("client", func() {
			defer wg.Done()
			r3 = w.Do(ReqSpec{ID: "three", Host: "nobody.example.com", Path: "/", SlowClient: true})
		})
		wg.Wait()
		w.S.SetWindow(false)
	}
	sc.Check = func(w *World) []Violation {
		var vs []Violation
		if r1 == nil || r2 == nil || r3 == nil {
			return vs
		}
		for _, x := range []struct {
			r          *ReqObs
			own, other string
		}{{r1, "message of one &lt;1&gt;", "message of two"}, {r2, "message of two &lt;2&gt;", "message of one"}} {
			b := string(x.r.Body)
			if x.r.Status != 503 || !strings.Contains(b, x.own) || strings.Contains(b, x.other) {
				vs = append(vs, Violation{"C08", "stop-message-of-another-service", fmt.Sprintf("request %s got %d with a page that contains its own message: %v, the other service's message: %v; body %q", x.r.ID, x.r.Status, strings.Contains(b, x.own), strings.Contains(b, x.other), firstN(x.r.Body, 200))})
			}
		}
		if r3.Status != 404 || strings.Contains(string(r3.Body), "message of") {
			vs = append(vs, Violation{"C08", "stop-message-of-another-service", fmt.Sprintf("request for an unknown host got %s with body %q", r3.Summary(), firstN(r3.Body, 200))})
		}
		return vs
	}
	return sc
}

// c08HeldThenStopped: requests held by a pause (ordinary ones, a POST, a health-check GET) when the service is stopped:
// every held request is answered 503 with the operator's message the moment the stop is issued and none reaches a
// target; the health-check GET is answered 200 by the proxy; requests after the stop get the same page.
func c08HeldThenStopped(clientsFirst, atLimit bool) *Scenario {
	sc := &Scenario{Name: fmt.Sprintf("C08-S requests held by a pause, then stop; clientsFirst=%v stop-at-the-hold-limit=%v", clientsFirst, atLimit), Horizon: 30 * time.Second}
	var held []*ReqObs
	var after *ReqObs
	var stop *CmdObs
	const msg = "closed <till> 5 & later"
	sc.Run = func(w *World) {
		held, after, stop = nil, nil, nil
		w.AddTarget("oa:80")
		w.Deploy(deployArgs("s1", []string{"oa:80"}, []string{"a.example.com"}, nil))
		limit := vMaxPause
		if atLimit {
			limit = 600 * time.Millisecond // the stop is issued at the instant the held requests' limit expires
		}
		w.Pause("s1", vD, limit)
		var wg vsync.WaitGroup
		specs := []ReqSpec{
			{ID: "held-get", Host: "a.example.com", Path: "/"},
			{ID: "held-post", Method: "POST", Host: "a.example.com", Path: "/form", Body: []byte("a=1")},
		}
		send := func() {
			for _, sp := range specs {
				sp := sp
				wg.Add(1)
				vsched.GoTagged("client", func() {
					defer wg.Done()
					r := w.Do(sp)
					w.mu.Lock()
					held = append(held, r)
					w.mu.Unlock()
				})
			}
		}
		if !clientsFirst {
			send()
			time.Sleep(300 * time.Millisecond)
			if atLimit {
				time.Sleep(300 * time.Millisecond)
			}
		}
		w.S.SetWindow(true)
		if clientsFirst {
			send()
		}
		wg.Add(1)
		vsched.GoTagged("cmd", func() {
			defer wg.Done()
			stop = w.Stop("s1", vD, msg)
		})
		wg.Wait()
		w.S.SetWindow(false)
		after = w.Do(ReqSpec{ID: "after", Host: "a.example.com", Path: "/"})
	}
	sc.Check = func(w *World) []Violation {
		var vs []Violation
		if stop == nil || after == nil {
			return vs
		}
		want := html.EscapeString(msg)
		for _, r := range append(append([]*ReqObs{}, held...), after) {
			b := string(r.Body)
			if atLimit && r.ID != "after" && r.Status == 504 {
				continue // its hold limit expired first
			}
			if r.Status != 503 || !(strings.Contains(b, want) || strings.Contains(b, strings.ReplaceAll(want, "&#34;", "&quot;"))) {
				sig := "held-request-not-answered-503-with-message on-stop"
				if r.ID == "after" {
					sig = "stopped-service-not-answering-503-with-message after-held-requests"
				} else if r.StartSeq > stop.StartSeq {
					sig = "request-arriving-during-stop-not-answered-503-with-message"
				}
				vs = append(vs, Violation{"C08", sig, fmt.Sprintf("request %s [%v..%v] got %s, body %q; stop issued at %v", r.ID, r.Start, r.End, r.Summary(), firstN(r.Body, 120), stop.Start)})
			}
		}
		for _, e := range w.Net.Events() {
			if e.Kind == "req" && e.Seq > stop.StartSeq {
				vs = append(vs, Violation{"C08", "stopped-service-contacted-target after-held-requests", fmt.Sprintf("request %s reached %s after the stop was issued", e.ReqID, e.Target)})
				break
			}
		}
		return vs
	}
	return sc
}

// c08OverlappingStops: stop("one") is still draining a request that never finishes when another operator issues
// stop("two") (or pause) with a longer drain timeout; after both returned the service is resumed.
func c08OverlappingStops(second string) *Scenario {
	sc := &Scenario{Name: "C08-S overlapping stop || " + second + " then resume", Horizon: 60 * time.Second}
	const host = "a.example.com"
	var during, after1, after2 *ReqObs
	sc.Run = func(w *World) {
		during, after1, after2 = nil, nil, nil
		w.AddTarget("oa:80")
		if r := w.Deploy(deployArgs("s1", []string{"oa:80"}, []string{host}, nil)); r.Err != nil {
			w.Note("setup: %v", r.Err)
			return
		}
		time.Sleep(100 * time.Millisecond)
		vsched.GoTagged("client", func() { w.Do(ReqSpec{ID: "inflight", Host: host, Path: "/", Plan: "hang"}) })
		time.Sleep(100 * time.Millisecond)
		var wg vsync.WaitGroup
		w.S.SetWindow(true)
		wg.Add(2)
		vsched.GoTagged("cmd", func() {
			defer wg.Done()
			w.Stop("s1", vD, "one")
		})
		vsched.GoTagged("cmd", func() {
			defer wg.Done()
			time.Sleep(300 * time.Millisecond)
			if second == "stop" {
				w.Stop("s1", 2*vD, "two")
			} else {
				w.Pause("s1", 2*vD, 20*time.Second)
			}
		})
		wg.Wait()
		w.S.SetWindow(false)
		if second == "stop" {
			during = w.Do(ReqSpec{ID: "during", Host: host, Path: "/x"})
		}
		// resume right away: no health probe falls between the end of the drains and the resume
		w.Resume("s1")
		after1 = w.Do(ReqSpec{ID: "after1", Host: host, Path: "/x"})
		time.Sleep(2500 * time.Millisecond)
		after2 = w.Do(ReqSpec{ID: "after2", Host: host, Path: "/x"})
	}
	sc.Check = func(w *World) []Violation {
		var vs []Violation
		for _, n := range w.Notes {
			vs = append(vs, Violation{"C08", "setup", n})
		}
		for _, cm := range w.Cmds {
			if cm.Err != nil {
				vs = append(vs, Violation{"C08", "command-failed", cm.Name + ": " + cm.Err.Error()})
			}
		}
		if len(vs) > 0 || after1 == nil || after2 == nil {
			return vs
		}
		if during != nil && !(during.Status == 503 && strings.Contains(string(during.Body), "two")) {
			vs = append(vs, Violation{"C08", "stop-message-missing-or-not-escaped", fmt.Sprintf("after stop(one) overlapped by stop(two), a request got %s", during.Summary())})
		}
		for _, r := range []*ReqObs{after1, after2} {
			if !(r.Status == 200 && r.ServedBy() == "oa:80") {
				vs = append(vs, Violation{"C08", "resume-does-not-restore-forwarding", fmt.Sprintf("after overlapping stop/%s and resume, request %s got %s (sites %v)", second, r.ID, r.Summary(), r.Sites)})
			}
		}
		return vs
	}
	return sc
}

// ---- engine S part: a gate command overlapping a redeploy of the same service

type c08cfg struct {
	pre string // running | stopped | paused
	cmd string // stop | resume | pause
}

func c08Scenario(c c08cfg) *Scenario {
	sc := &Scenario{Name: fmt.Sprintf("C08-S pre=%s cmd=%s during redeploy", c.pre, c.cmd), Horizon: 60 * time.Second}
	const host = "a.example.com"
	var final []*ReqObs
	var got, listed string
	sc.Run = func(w *World) {
		final = nil
		got, listed = "", ""
		w.AddTarget("oa:80")
		w.AddTarget("na:80", p500(), pOK()) // healthy at the second probe: the deploy takes one interval
		if r := w.Deploy(deployArgs("s1", []string{"oa:80"}, []string{host}, nil)); r.Err != nil {
			w.Note("setup: %v", r.Err)
			return
		}
		switch c.pre {
		case "stopped":
			w.Stop("s1", vD, "before")
		case "paused":
			w.Pause("s1", vD, 20*time.Second)
		}
		time.Sleep(100 * time.Millisecond)
		var wg vsync.WaitGroup
		w.S.SetWindow(true)
		wg.Add(2)
		vsched.GoTagged("cmd", func() {
			defer wg.Done()
			w.Deploy(deployArgs("s1", []string{"na:80"}, []string{host}, nil))
		})
		vsched.GoTagged("cmd", func() {
			defer wg.Done()
			time.Sleep(400 * time.Millisecond)
			switch c.cmd {
			case "stop":
				w.Stop("s1", vD, "during")
			case "resume":
				w.Resume("s1")
			case "pause":
				w.Pause("s1", vD, 20*time.Second)
			}
		})
		wg.Wait()
		w.S.SetWindow(false)
		time.Sleep(50 * time.Millisecond)
		for i := 0; i < 2; i++ {
			i := i
			vsched.GoTagged("client", func() {
				r := w.Do(ReqSpec{ID: fmt.Sprintf("final%d", i), Host: host, Path: "/"})
				w.mu.Lock()
				final = append(final, r)
				w.mu.Unlock()
			})
		}
		time.Sleep(50 * time.Millisecond)
		w.mu.Lock()
		got = "held"
		for _, r := range final {
			switch {
			case r.Status == 200 && r.ServedBy() != "":
				got = "running"
			case r.Status == 503 && strings.Contains(string(r.Body), "during"):
				got = "stopped"
			case r.Status == 503:
				got = "503-other"
			default:
				got = fmt.Sprintf("status-%d", r.Status)
			}
		}
		if len(final) < 2 {
			got = "held"
		}
		w.mu.Unlock()
		l, _ := w.List()
		listed = l["s1"].State
	}
	sc.Check = func(w *World) []Violation {
		var vs []Violation
		for _, n := range w.Notes {
			vs = append(vs, Violation{"C08", "setup", n})
		}
		for _, cm := range w.Cmds {
			if cm.Err != nil {
				vs = append(vs, Violation{"C08", "command-failed", cm.Name + ": " + cm.Err.Error()})
			}
		}
		if len(vs) > 0 {
			return vs
		}
		want := map[string]string{"stop": "stopped", "resume": "running", "pause": "paused"}[c.cmd]
		if want == "paused" {
			want = "held"
		}
		if got != want {
			vs = append(vs, Violation{"C08", fmt.Sprintf("gate-state-lost-by-overlapping-redeploy cmd=%s want=%s got=%s", c.cmd, want, got), fmt.Sprintf("pre=%s: %s completed while s1 was being redeployed; afterwards requests see %q", c.pre, c.cmd, got)})
		}
		if listed != map[string]string{"held": "paused", "stopped": "stopped", "running": "running"}[want] {
			vs = append(vs, Violation{"C08", "list-state-after-overlapping-redeploy", fmt.Sprintf("list shows %q, expected %q", listed, want)})
		}
		return vs
	}
	return sc
}
