//go:build verif

package server

import (
	"encoding/json"
	"fmt"
	"os"
	"sort"
	"strings"
	"testing"
	"time"

	"github.com/basecamp/kamal-proxy/internal/verif/vsched"
	"github.com/basecamp/kamal-proxy/internal/verif/vsync"
)

func init() { checks["C06"] = checkC06 }

// canonicalState parses the state file into a canonical string: services
// sorted by name; a missing file and an empty list are the same configuration.
func canonicalState(path string) string {
	b, err := os.ReadFile(path)
	if err != nil {
		return "[]"
	}
	var list []map[string]any
	if err := json.Unmarshal(b, &list); err != nil {
		return "undecodable: " + err.Error()
	}
	sort.Slice(list, func(i, j int) bool { return fmt.Sprint(list[i]["name"]) < fmt.Sprint(list[j]["name"]) })
	for _, svc := range list {
		// "no rollout targets" may be spelled null or []
		if v, ok := svc["rollout_targets"].([]any); ok && len(v) == 0 {
			svc["rollout_targets"] = nil
		}
	}
	out, _ := json.Marshal(list)
	return string(out)
}

var c06Builders = []string{
	"deploy s1 h=a.example.com p=/",
	"deploy s1 h=a.example.com p=/ n=2",
	"deploy s1 h=a.example.com,b.example.com p=/,/api o=tls",
	"deploy s2 h=- p=/",
	"deploy s2 h=a.example.com p=/api o=strip0",
	"rdeploy s1 n=1",
	"rset s1 pct=0 allow=v",
	"rset s1 pct=100 allow=-",
	"rstop s1",
	"pause s1 max=20000",
	"stop s1 msg=m2",
	"resume s1",
	"remove s1",
	"restart",
}

func c06Failing(m *Model) []string {
	ops := []string{
		// (1) malformed target names
		"deploy s1 h=a.example.com p=/ n=2 bad=malformed-first",
		"deploy s1 h=a.example.com p=/ n=2 bad=malformed-last",
		"rdeploy s1 n=2 bad=malformed-last",
		"deploy s3 h=c.example.com p=/ n=1 bad=malformed-first",
		// (2) targets that never become healthy
		"deploy s1 h=a.example.com p=/ n=1 bad=unhealthy-all",
		"deploy s1 h=a.example.com p=/ n=2 bad=unhealthy-one",
		"rdeploy s1 n=2 bad=unhealthy-one",
		"rdeploy s1 n=1 bad=unhealthy-all",
		"deploy s3 h=c.example.com p=/ n=2 bad=unhealthy-one",
		"deploy s3 h=c.example.com p=/ n=2 dup=1 bad=unhealthy-all", // the same target named twice
		"rdeploy s1 n=2 dup=1 bad=unhealthy-all",
		// (2b) the same, repeating the service's hosts and paths but with other per-target options (health-check path,
		// buffering limits, target timeout)
		"deploy s1 h=a.example.com p=/ n=1 o=hc bad=unhealthy-all",
		"deploy s1 h=a.example.com p=/ o=buf bad=malformed-first",
		"deploy s1 h=a.example.com p=/ n=1 o=tt bad=unhealthy-all",
		// (3) unreadable certificate
		"deploy s1 h=a.example.com p=/ bad=cert",
		"deploy s3 h=c.example.com p=/ bad=cert",
		// (4) error pages
		"deploy s1 h=a.example.com p=/ bad=pages-empty",
		"deploy s1 h=a.example.com p=/ bad=pages-broken",
		// (5) automatic TLS with a wildcard host
		"deploy s1 h=a.example.com p=/ bad=acme-wildcard",
		// (7) unknown service
		"pause nosuch max=1000", "stop nosuch msg=m1", "resume nosuch", "remove nosuch", "rdeploy nosuch n=1", "rset nosuch pct=50 allow=-", "rstop nosuch",
		// (8) split without rollout targets
		"rset s2 pct=50 allow=-", "rset s1 pct=50 allow=v",
	}
	// (6) host conflicts: a new service and a redeploy moving onto a taken pair
	for _, n := range sortedKeys(m.Services) {
		s := m.Services[n]
		h := s.Hosts[0]
		if h == "" {
			h = "-"
		}
		ops = append(ops, fmt.Sprintf("deploy s3 h=%s p=%s n=2", h, s.Paths[0]))
		ops = append(ops, fmt.Sprintf("deploy s3 h=%s p=%s n=2 dup=1", h, s.Paths[0]))
		for _, o := range sortedKeys(m.Services) {
			if o != n {
				ops = append(ops, fmt.Sprintf("deploy %s h=%s,z.example.com p=%s", o, h, s.Paths[0]))
				// the taken pair comes last: after the service's own first host, and after a host nobody has
				if oh := m.Services[o].Hosts[0]; oh != "" && oh != h && h != "-" {
					ops = append(ops, fmt.Sprintf("deploy %s h=%s,%s p=%s", o, oh, h, s.Paths[0]))
				}
				if h != "-" {
					ops = append(ops, fmt.Sprintf("deploy %s h=x.example.com,%s p=%s", o, h, s.Paths[0]))
				}
			}
		}
		if h != "-" {
			ops = append(ops, fmt.Sprintf("deploy s3 h=x.example.com,%s p=%s n=2", h, s.Paths[0]))
		}
	}
	return ops
}

func c06Spec(tier string) *HSpec {
	depth := 4 // three building commands + the failing one
	if tier == "thorough" {
		depth = 5
	}
	var before *HObs
	var beforeFile string
	var beforeFP string
	var beforeOpts string
	// the options every installed service runs with (service and per-target options), read off the live objects
	liveOptions := func(h *HWorld) string {
		var parts []string
		h.Router.serviceLock.RLock()
		for _, n := range sortedKeys(h.Router.services.services) {
			sv := h.Router.services.services[n]
			sv.serviceLock.Lock()
			parts = append(parts, fmt.Sprintf("%s: %+v %+v", n, sv.options, sv.targetOptions))
			sv.serviceLock.Unlock()
		}
		h.Router.serviceLock.RUnlock()
		return strings.Join(parts, "\n")
	}
	obs := ObsSpec{
		Hosts: []string{"a.example.com", "b.example.com", "x.example.com", "other.org"}, Paths: []string{"/", "/api/x"},
		Cookies: []string{"", "v", "w"}, TLS: []bool{false, true},
	}
	after := obs
	after.Settle = true
	spec := &HSpec{
		Prop: "C06", Name: "C06", Depth: depth, Obs: after,
		Clauses: map[string]bool{"probed": true},
	}
	spec.Alphabet = func(m *Model, d int) []string {
		var res []string
		// the failing command may come after 0..depth-1 building commands
		for _, f := range c06Failing(m) {
			h := &HWorld{World: &World{}, M: m.clone(), allNames: map[string]bool{}}
			if len(h.applyModel(parseOp(f))) > 0 {
				res = append(res, f)
			}
		}
		if d < depth-1 {
			for _, b := range c06Builders {
				h := &HWorld{World: &World{}, M: m.clone(), allNames: map[string]bool{}}
				if len(h.applyModel(parseOp(b))) == 0 {
					// skip no-ops that do not change the model state (resume of a running service etc.) except restart
					if b != "restart" && h.M.key() == m.key() && !strings.HasPrefix(b, "deploy") {
						continue
					}
					if b == "restart" && len(m.Services) == 0 {
						continue
					}
					res = append(res, b)
				}
			}
		}
		return res
	}
	spec.EvalOnly = func(hist []string, failed bool) bool { return failed }
	spec.PreLast = func(h *HWorld, op HOp) {
		before = h.observe(obs)
		beforeFP = before.fingerprint(h)
		beforeFile = canonicalState(h.State)
		beforeOpts = liveOptions(h)
	}
	spec.Extra = func(h *HWorld, op HOp, o *HObs) []Violation {
		var vs []Violation
		class := strings.Join(h.lastWant, "|")
		if h.lastCmd.Err == nil {
			return vs // reported by resultViolation
		}
		afterFP := (&HObs{Cells: o.Cells, List: o.List}).fingerprint(h)
		bFP := (&HObs{Cells: before.Cells, List: before.List}).fingerprint(h)
		_ = beforeFP
		if afterFP != bFP {
			vs = append(vs, Violation{"C06", "failed-command-changed-behaviour class=" + class + " " + op.Kind, fmt.Sprintf("after failing %q (%v) the observable behaviour differs:\n%s", op.raw, h.lastCmd.Err, firstDiff(bFP, afterFP))})
		}
		if ao := liveOptions(h); ao != beforeOpts {
			vs = append(vs, Violation{"C06", "failed-command-changed-options class=" + class + " " + op.Kind, fmt.Sprintf("after failing %q (%v) the installed services run with other options:\n%s", op.raw, h.lastCmd.Err, firstDiff(beforeOpts, ao))})
		}
		if af := canonicalState(h.State); af != beforeFile {
			vs = append(vs, Violation{"C06", "failed-command-changed-saved-state class=" + class + " " + op.Kind, fmt.Sprintf("after failing %q the state file changed:\n before: %s\n after:  %s", op.raw, firstN([]byte(beforeFile), 600), firstN([]byte(af), 600))})
		}
		return vs
	}
	return spec
}

func firstDiff(a, b string) string {
	la, lb := strings.Split(a, "\n"), strings.Split(b, "\n")
	var out []string
	for i := 0; i < len(la) || i < len(lb); i++ {
		x, y := "", ""
		if i < len(la) {
			x = la[i]
		}
		if i < len(lb) {
			y = lb[i]
		}
		if x != y {
			out = append(out, " before: "+x+"\n after:  "+y)
			if len(out) >= 4 {
				break
			}
		}
	}
	return strings.Join(out, "\n")
}

func checkC06(t *testing.T, job *Job, res *Result) {
	tier := job.Tier
	if job.Replay != nil {
		tier = job.Replay.Tier
	}
	res.Rule = "from every configuration reached by histories of building commands (deploys incl. TLS/multi-host/strip variants, rollout deploy/set/stop, pause, stop, resume, remove, restart) up to the depth bound, every failing command of classes (1)-(8) of DESIGN.md C06; oracle: predicted error class; probe matrix (hosts x paths x cookie x scheme), list and canonical state file identical before and after; no probe to a target named only in the failed command during a 3-interval settle window, every live target still probed"
	spec := c06Spec(tier)
	res.Bounds = fmt.Sprintf("histories of up to %d building commands followed by one failing command", spec.Depth-1)
	if job.Replay == nil || job.Replay.Engine == "H" {
		exploreH(t, job, res, spec)
	}
	if job.Replay == nil || job.Replay.Engine == "S" {
		var scs []*Scenario
		for _, c := range c06Configs() {
			scs = append(scs, c06Scenario(c))
		}
		for _, pre := range [][]string{{"deploy s1 h=a.example.com p=/"}, {"deploy s1 h=a.example.com p=/", "rdeploy s1 n=1", "rset s1 pct=0 allow=v"}} {
			for _, op := range []string{"deploy s1 h=a.example.com p=/ n=2", "deploy s2 h=b.example.com p=/", "rdeploy s1 n=1", "pause s1 max=20000", "stop s1 msg=m1", "remove s1", "deploy s1 h=a.example.com,c.example.com p=/"} {
				scs = append(scs, c06StateUnwritable(pre, op, "cannot-create"))
				if _, err := os.Stat("/dev/full"); err == nil {
					scs = append(scs, c06StateUnwritable(pre, op, "cannot-write"))
				}
			}
		}
		b := Bounds{D: 1, S: 0}
		if tier == "thorough" {
			b = Bounds{D: 2, S: 0}
		}
		runS(t, job, res, "C06", scs, b, 3000)
	}
	res.Engine = "H+S"
	res.Rule += "; engine S part: a command that fails only after the deploy timeout (rollout deploy / deploy with an unhealthy target) with another command (rollout stop, pause, resume, stop, deploy of the same or another service, a failing command) served 1s into it, every schedule within the bound: afterwards neither the state file nor the live configuration names a rejected target, the file restores to the configuration in force, rejected targets are not probed, and a split is accepted exactly if rollout targets existed before; a command run while the state file cannot be written: if it reports failure, requests, list and probing are as before"
}

// ---- engine S part: another command is served while a doomed command is still running

type c06cfg struct {
	failing string // op string (fails by not becoming healthy: takes the whole deploy timeout)
	other   string // op string issued 1s into it
	pre     []string
}

func c06Scenario(c c06cfg) *Scenario {
	sc := &Scenario{Name: fmt.Sprintf("C06-S pre=%v failing=%q other=%q", c.pre, c.failing, c.other), Horizon: 90 * time.Second}
	var fileAfter, liveAfter, restoredAfter string
	var listedNames, modelNames string
	var rejected []string
	var rsetErr string
	var hadRollout bool
	var probedLate map[string]int
	sc.Run = func(w *World) {
		h := &HWorld{World: w, M: newModel(), allNames: map[string]bool{}}
		for _, p := range c.pre {
			h.apply(parseOp(p))
		}
		time.Sleep(100 * time.Millisecond)
		hadRollout = h.M.Services["s1"] != nil && len(h.M.Services["s1"].Rollout) > 0
		fop := parseOp(c.failing)
		fh := &HWorld{World: w, M: h.M.clone(), allNames: map[string]bool{}, opNo: 50}
		oh := &HWorld{World: w, M: h.M.clone(), allNames: map[string]bool{}, opNo: 70}
		rejected = fh.targetNames(fop)
		var wg vsync.WaitGroup
		w.S.SetWindow(true)
		wg.Add(2)
		vsched.GoTagged("cmd", func() {
			defer wg.Done()
			fh.apply(fop)
		})
		vsched.GoTagged("cmd", func() {
			defer wg.Done()
			time.Sleep(time.Second)
			oh.apply(parseOp(c.other))
		})
		wg.Wait()
		w.S.SetWindow(false)
		from := w.Net.Mark("settle-start", "")
		time.Sleep(3*vI + 50*time.Millisecond)
		probedLate = map[string]int{}
		for _, e := range w.Net.Events() {
			if e.Seq > from && (e.Kind == "probe" || e.Kind == "probe-refused") {
				probedLate[e.Target]++
			}
		}
		if l, _ := w.List(); l != nil {
			listedNames = strings.Join(sortedKeys(l), ",")
		}
		modelNames = strings.Join(sortedKeys(oh.M.Services), ",")
		fileAfter = canonicalState(w.State)
		liveAfter = routerSummary(w.Router)
		fb, ferr := os.ReadFile(w.State)
		restoredAfter, _ = restoredSummary(w, fb, ferr == nil)
		r := w.RolloutSet("s1", 100, nil)
		rsetErr = classifyErr(r.Err)
	}
	sc.Check = func(w *World) []Violation {
		var vs []Violation
		for _, t := range rejected {
			if strings.Contains(fileAfter, `"`+t+`"`) {
				vs = append(vs, Violation{"C06", "saved-state-names-rejected-target", fmt.Sprintf("after the failed %q the state file mentions %s: %s", c.failing, t, firstN([]byte(fileAfter), 400))})
			}
			if strings.Contains(liveAfter, t) {
				vs = append(vs, Violation{"C06", "live-configuration-names-rejected-target", fmt.Sprintf("after the failed %q the router still uses %s: %s", c.failing, t, liveAfter)})
			}
			if probedLate[t] > 0 {
				vs = append(vs, Violation{"C06", "probes-to-rejected-by-failed-command-target", fmt.Sprintf("%s probed %d times after both commands returned", t, probedLate[t])})
			}
		}
		if listedNames != modelNames {
			vs = append(vs, Violation{"C06", "services-changed-by-failed-command", fmt.Sprintf("after the failed %q and %q the proxy lists {%s}; the failed command changes nothing, so it should list {%s}", c.failing, c.other, listedNames, modelNames)})
		}
		if restoredAfter != liveAfter {
			vs = append(vs, Violation{"C06", "saved-state-differs-from-configuration-after-failed-command", fmt.Sprintf("file restores to {%s}, in force {%s}", restoredAfter, liveAfter)})
		}
		// a split can be set afterwards exactly if rollout targets existed before (the other commands used here do not add any)
		wantErr := "rollout-not-set"
		if hadRollout {
			wantErr = "ok"
		}
		if strings.HasPrefix(c.other, "remove s1") {
			wantErr = "not-found"
		}
		if rsetErr != wantErr {
			vs = append(vs, Violation{"C06", fmt.Sprintf("rollout-set-after-failed-command got=%s want=%s", rsetErr, wantErr), fmt.Sprintf("pre=%v failing=%q other=%q", c.pre, c.failing, c.other)})
		}
		return vs
	}
	return sc
}

// c06StateUnwritable: the state file cannot be written (its temporary name is taken by a directory) when a command
// that would otherwise succeed runs. Whether the command then reports the problem is the implementation's choice; IF it
// reports failure, nothing may have changed and nothing of it may keep running.
func c06StateUnwritable(pre []string, op string, mode string) *Scenario {
	sc := &Scenario{Name: fmt.Sprintf("C06-S state file unwritable (%s) pre=%v op=%q", mode, pre, op), Horizon: 90 * time.Second}
	var followErr error
	var followDone, followReq bool
	var before, after string
	var cmdErr error
	var named []string
	var probedLate map[string]int
	sc.Run = func(w *World) {
		before, after, cmdErr, named = "", "", nil, nil
		h := &HWorld{World: w, M: newModel(), allNames: map[string]bool{}}
		for _, p := range pre {
			h.apply(parseOp(p))
		}
		time.Sleep(100 * time.Millisecond)
		look := func() string {
			var parts []string
			for _, host := range []string{"a.example.com", "b.example.com", "c.example.com"} {
				for _, ck := range []string{"", "kamal-rollout=v"} {
					r := w.Do(ReqSpec{Host: host, Path: "/x", Cookie: ck})
					parts = append(parts, fmt.Sprintf("%s[%s]=%d@%s", host, ck, r.Status, r.ServedBy()))
				}
			}
			return strings.Join(parts, " ") + " | " + routerSummary(w.Router)
		}
		before = look()
		os.Remove(w.State + ".tmp")
		followErr, followDone, followReq = nil, false, false
		var err error
		if mode == "cannot-create" {
			err = os.Mkdir(w.State+".tmp", 0o755) // the temporary name is taken by a directory
		} else {
			err = os.Symlink("/dev/full", w.State+".tmp") // it can be created, every write fails (no space left)
		}
		if err != nil {
			w.Note("setup: %v", err)
			return
		}
		defer os.Remove(w.State + ".tmp")
		defer func() {
			// the fault is gone: the proxy must still take commands and answer requests
			os.Remove(w.State + ".tmp")
			fh2 := &HWorld{World: w, M: newModel(), allNames: map[string]bool{}, opNo: 80}
			fh2.apply(parseOp("deploy s9 h=z.example.com p=/"))
			if fh2.lastCmd != nil {
				followErr, followDone = fh2.lastCmd.Err, fh2.lastCmd.Done
			}
			r := w.Do(ReqSpec{Host: "z.example.com", Path: "/"})
			followReq = r.Done && r.Status == 200
		}()
		o := parseOp(op)
		fh := &HWorld{World: w, M: h.M.clone(), allNames: map[string]bool{}, opNo: 50}
		named = fh.targetNames(o)
		fh.apply(o)
		if fh.lastCmd != nil {
			cmdErr = fh.lastCmd.Err
		}
		if cmdErr == nil {
			return
		}
		from := w.Net.Mark("settle-start", "")
		time.Sleep(3*vI + 50*time.Millisecond)
		probedLate = map[string]int{}
		for _, e := range w.Net.Events() {
			if e.Seq > from && (e.Kind == "probe" || e.Kind == "probe-refused") {
				probedLate[e.Target]++
			}
		}
		after = look()
	}
	sc.Check = func(w *World) []Violation {
		var vs []Violation
		for _, n := range w.Notes {
			vs = append(vs, Violation{"C06", "setup", n})
		}
		if len(vs) == 0 && (!followDone || followErr != nil || !followReq) {
			vs = append(vs, Violation{"C06", "proxy-not-usable-after-state-file-fault " + mode, fmt.Sprintf("after %q ran while the state file could not be written (and the fault was removed) a deploy of another service: done=%v err=%v, request served=%v", op, followDone, followErr, followReq)})
		}
		if cmdErr == nil || len(vs) > 0 {
			return vs
		}
		if before != after {
			vs = append(vs, Violation{"C06", "failed-command-changed-behaviour class=state-file-unwritable " + strings.Fields(op)[0], fmt.Sprintf("%q reported an error (%s), but afterwards the proxy behaves differently:\n before: %s\n after:  %s", op, strings.ReplaceAll(cmdErr.Error(), w.Dir, "<dir>"), before, after)})
		}
		for _, t := range named {
			if probedLate[t] > 0 && !strings.Contains(before, t) {
				vs = append(vs, Violation{"C06", "probes-to-rejected-by-failed-command-target class=state-file-unwritable", fmt.Sprintf("%s probed %d times after %q reported an error", t, probedLate[t], op)})
			}
		}
		for _, t := range strings.Fields(strings.NewReplacer(",", " ", "=", " ", ";", " ", "@", " ").Replace(after)) {
			if strings.HasSuffix(t, ":80") && probedLate[t] == 0 {
				vs = append(vs, Violation{"C06", "live-target-no-longer-probed class=state-file-unwritable", fmt.Sprintf("%s (in service after %q reported an error) was not probed in 3 intervals", t, op)})
				break
			}
		}
		return vs
	}
	return sc
}

func c06Configs() []c06cfg {
	var cfgs []c06cfg
	pres := [][]string{
		{"deploy s1 h=a.example.com p=/"},
		{"deploy s1 h=a.example.com p=/", "rdeploy s1 n=1", "rset s1 pct=0 allow=v"},
	}
	fails := []string{"rdeploy s1 n=1 bad=unhealthy-all", "rdeploy s1 n=2 bad=unhealthy-one", "deploy s1 h=a.example.com p=/ n=2 bad=unhealthy-one", "deploy s3 h=c.example.com p=/ bad=unhealthy-all"}
	others := []string{"rstop s1", "pause s1 max=20000", "resume s1", "deploy s2 h=b.example.com p=/", "deploy s1 h=a.example.com p=/ n=2", "pause nosuch max=1000", "stop s1 msg=m1"}
	for _, pre := range pres {
		for _, f := range fails {
			for _, o := range others {
				cfgs = append(cfgs, c06cfg{f, o, pre})
			}
		}
	}
	// the failing command is the first deploy of a service that another operator deploys successfully meanwhile
	for _, f := range []string{"deploy s3 h=c.example.com p=/ bad=unhealthy-all", "deploy s3 h=c.example.com p=/ n=2 bad=unhealthy-one"} {
		for _, o := range []string{"deploy s3 h=c.example.com p=/", "deploy s3 h=d.example.com p=/ n=2"} {
			cfgs = append(cfgs, c06cfg{f, o, pres[0]})
		}
	}
	return cfgs
}
