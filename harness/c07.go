//go:build verif

package server

import (
	"fmt"
	"html"
	"strings"
	"testing"
	"time"

	"github.com/basecamp/kamal-proxy/internal/verif/vsched"
	"github.com/basecamp/kamal-proxy/internal/verif/vsync"
)

func init() { checks["C07"] = checkC07 }

// command alphabet: P = pause(max-pause 3150ms), p = pause(1050ms), R = resume,
// S = stop("msg-<i>"), D = redeploy to a fresh target
type c07client struct {
	kind   string // get | health-get | health-post
	offset time.Duration
}

type c07cfg struct {
	seq      string
	gap      time.Duration
	clients  []c07client
	rollout  bool
	inflight bool // a request is being served (for 900ms) when the sequence starts
	// overlap: a request that never finishes is in flight, and the second command of the sequence is issued by another
	// operator 300ms after the first one started (its drain, with twice the drain timeout, overlaps the first one's)
	overlap bool
	deep    bool // explored with <=2 deviations in the quick tier too
	// tightTail: the last command follows its predecessor at once (the earlier ones are a gap apart): a request held
	// since the first command is released by the second-to-last one and meets the last one
	tightTail bool
	// slowDeploy: redeployed targets turn healthy only at their second probe, so that (with overlap) the second
	// command lands while the deploy is still waiting for them
	slowDeploy bool
}

func (c c07cfg) String() string {
	var cl []string
	for _, x := range c.clients {
		cl = append(cl, fmt.Sprintf("%s@%v", x.kind, x.offset))
	}
	return fmt.Sprintf("seq=%s gap=%v clients=[%s] rollout=%v inflight=%v overlap=%v", c.seq, c.gap, strings.Join(cl, ","), c.rollout, c.inflight, c.overlap) + map[bool]string{true: " last-command-at-once"}[c.tightTail]
}

const (
	c07Long  = vMaxPause
	c07Short = 1050 * time.Millisecond
)

func c07Configs(tier string) []c07cfg {
	alpha := "PpRSD"
	var seqs []string
	var gen func(prefix string, n int)
	maxLen := 2
	if tier != "quick" {
		maxLen = 3
		alpha = "PpRSDz"
	}
	gen = func(prefix string, n int) {
		if len(prefix) > 0 {
			seqs = append(seqs, prefix)
		}
		if n == 0 {
			return
		}
		for _, ch := range alpha {
			gen(prefix+string(ch), n-1)
		}
	}
	gen("", maxLen)
	gap := 1200 * time.Millisecond
	sets := [][]c07client{
		{{"get", 0}},
		{{"get", 600 * time.Millisecond}},
		{{"health-get", 600 * time.Millisecond}, {"health-post", 600 * time.Millisecond}},
		{{"get", 0}, {"get", 600 * time.Millisecond}, {"get", 1800 * time.Millisecond}},
	}
	var cfgs []c07cfg
	if tier == "quick" {
		// a few length-3 sequences whose middle command replaces the targets or changes the limit
		seqs = append(seqs, "PDR", "PDS", "PpR", "pPS", "SDR", "PRP")
		// a pause with a hold limit of zero (requests are answered 504 on arrival), released, replaced or extended
		seqs = append(seqs, "z", "zR", "zS", "zP", "Pz", "zD")
	}
	for _, s := range seqs {
		// sequences that never touch the gate are C02's business
		if !strings.ContainsAny(s, "PpzS") {
			continue
		}
		for i, cl := range sets {
			if tier == "quick" && len(s) == 1 && i == 3 {
				continue
			}
			cfgs = append(cfgs, c07cfg{seq: s, gap: gap, clients: cl})
		}
		if len(s) <= 2 || tier != "quick" {
			// a request in flight keeps the drain of the first pause/stop open while another one arrives
			cfgs = append(cfgs, c07cfg{seq: s, gap: gap, clients: []c07client{{"get", 300 * time.Millisecond}}, inflight: true})
		}
		if tier != "quick" {
			cfgs = append(cfgs, c07cfg{seq: s, gap: 0, clients: sets[0]})
			cfgs = append(cfgs, c07cfg{seq: s, gap: gap, clients: sets[1], rollout: true})
		}
	}
	if tier == "quick" {
		// commands issued back to back (no gap): a request released by one command meets the next one
		for _, s := range []string{"PSp", "PSP", "PRS", "pSR"} {
			cfgs = append(cfgs, c07cfg{seq: s, gap: 0, clients: sets[0], deep: true})
		}
	}
	// a held request is released by resume / stop and the next command follows at once
	for _, s := range []string{"PRS", "PRP", "PSP"} {
		cfgs = append(cfgs, c07cfg{seq: s, gap: 1200 * time.Millisecond, clients: []c07client{{"get", 600 * time.Millisecond}, {"get", 600 * time.Millisecond}}, deep: true, tightTail: true})
	}
	// the next command lands at the very instant at which the hold limit of a request held since the pause expires
	for _, s := range []string{"pS", "pR", "pP"} {
		cfgs = append(cfgs, c07cfg{seq: s, gap: c07Short, clients: []c07client{{"get", 0}, {"get", 0}}, deep: true})
	}
	// a pause / stop by another operator while a redeploy is still waiting for its targets
	for _, s := range []string{"DPR", "DSR"} {
		cfgs = append(cfgs, c07cfg{seq: s, gap: 100 * time.Millisecond, clients: []c07client{{"get", 600 * time.Millisecond}, {"get", 1500 * time.Millisecond}, {"health-get", 1500 * time.Millisecond}}, overlap: true, slowDeploy: true})
	}
	// two drains of the same targets overlapping
	ov := []string{"PpR", "PSR", "SpR"}
	if tier != "quick" {
		ov = append(ov, "PPR", "SSR", "pPR", "PpS", "SPR", "PpD")
	}
	for _, s := range ov {
		// the third command follows 100ms after the drains ended: no health probe falls in between
		cfgs = append(cfgs, c07cfg{seq: s, gap: 100 * time.Millisecond, clients: []c07client{{"get", 600 * time.Millisecond}, {"get", 2250 * time.Millisecond}}, overlap: true})
	}
	return cfgs
}

type gateState struct {
	kind    string // running | paused | stopped
	limit   time.Duration
	msg     string
	targets string // active target name
}

func c07Scenario(c c07cfg) *Scenario {
	sc := &Scenario{Name: "C07 " + c.String(), Horizon: 90 * time.Second}
	const host = "a.example.com"
	var cmdList []*CmdObs
	sc.Run = func(w *World) {
		cmdList = nil
		w.AddTarget("t0:80")
		for i := range c.seq {
			if c.slowDeploy {
				w.AddTarget(fmt.Sprintf("t%d:80", i+1), p500(), pOK())
			} else {
				w.AddTarget(fmt.Sprintf("t%d:80", i+1))
			}
		}
		if r := w.Deploy(deployArgs("s1", []string{"t0:80"}, []string{host}, nil)); r.Err != nil {
			w.Note("setup: %v", r.Err)
			return
		}
		if c.rollout {
			w.AddTarget("ra:80")
			w.RolloutDeploy("s1", []string{"ra:80"})
			w.RolloutSet("s1", 0, []string{"v"})
		}
		time.Sleep(vI/2 + 30*time.Millisecond)
		var wg vsync.WaitGroup
		if c.inflight {
			wg.Add(1)
			vsched.GoTagged("client", func() {
				defer wg.Done()
				w.Do(ReqSpec{ID: "inflight", Host: host, Path: "/", Plan: "delay=900ms"})
			})
			time.Sleep(100 * time.Millisecond)
		}
		if c.overlap {
			wg.Add(1)
			vsched.GoTagged("client", func() {
				defer wg.Done()
				w.Do(ReqSpec{ID: "inflight", Host: host, Path: "/", Plan: "hang"})
			})
			time.Sleep(100 * time.Millisecond)
		}
		cmdList = make([]*CmdObs, len(c.seq))
		run := func(i int, ch rune, drain time.Duration) {
			var o *CmdObs
			switch ch {
			case 'P':
				o = w.Pause("s1", drain, c07Long)
			case 'p':
				o = w.Pause("s1", drain, c07Short)
			case 'z':
				o = w.Pause("s1", drain, 0)
			case 'R':
				o = w.Resume("s1")
			case 'S':
				o = w.Stop("s1", drain, fmt.Sprintf("msg-%d <b>", i))
			case 'D':
				a := deployArgs("s1", []string{fmt.Sprintf("t%d:80", i+1)}, []string{host}, nil)
				a.DrainTimeout = drain
				o = w.Deploy(a)
			}
			w.mu.Lock()
			cmdList[i] = o
			w.mu.Unlock()
		}
		w.S.SetWindow(true)
		wg.Add(1)
		vsched.GoTagged("cmd", func() {
			defer wg.Done()
			var second vsync.WaitGroup
			for i, ch := range c.seq {
				if c.overlap && i == 1 {
					continue
				}
				if i > 0 && c.gap > 0 && !(c.tightTail && i == len(c.seq)-1) {
					time.Sleep(c.gap)
				}
				if c.overlap && i == 0 {
					second.Add(1)
					vsched.GoTagged("cmd", func() {
						defer second.Done()
						time.Sleep(300 * time.Millisecond)
						run(1, rune(c.seq[1]), 2*vD)
					})
				}
				run(i, ch, vD)
				if c.overlap && i == 0 {
					second.Wait()
				}
			}
		})
		for k, cl := range c.clients {
			wg.Add(1)
			k, cl := k, cl
			vsched.GoTagged("client", func() {
				defer wg.Done()
				if cl.offset > 0 {
					time.Sleep(cl.offset)
				}
				spec := ReqSpec{ID: fmt.Sprintf("c%d-%s", k, cl.kind), Host: host, Path: "/"}
				switch cl.kind {
				case "health-get":
					spec.Path = vHealthPath
				case "health-post":
					spec.Path = vHealthPath
					spec.Method = "POST"
					spec.Body = []byte("x")
				}
				w.Do(spec)
			})
		}
		wg.Wait()
		w.S.SetWindow(false)
	}
	sc.Check = func(w *World) []Violation {
		var vs []Violation
		for _, n := range w.Notes {
			vs = append(vs, Violation{"C07", "setup", n})
		}
		if len(vs) > 0 || len(cmdList) != len(c.seq) {
			return vs
		}
		for _, o := range cmdList {
			if o == nil {
				return vs
			}
		}
		// gate model: the gate commands (pause, resume, stop) in their own order, the redeploys separately: the two
		// are independent dimensions (commands of the two kinds may overlap when issued by different operators)
		states := []gateState{{kind: "running"}}
		var gcmds []*CmdObs // gate commands, gcmds[k-1] leads to states[k]
		var dcmds []*CmdObs // redeploys
		dTargets := []string{"t0:80"}
		for i, ch := range c.seq {
			if cmdList[i].Err != nil {
				vs = append(vs, Violation{"C07", "command-failed", fmt.Sprintf("%s: %v", cmdList[i].Name, cmdList[i].Err)})
				return vs
			}
			if ch == 'D' {
				dcmds = append(dcmds, cmdList[i])
				dTargets = append(dTargets, fmt.Sprintf("t%d:80", i+1))
				continue
			}
			g := states[len(states)-1]
			switch ch {
			case 'P':
				g.kind, g.limit, g.msg = "paused", c07Long, ""
			case 'p':
				g.kind, g.limit, g.msg = "paused", c07Short, ""
			case 'z':
				g.kind, g.limit, g.msg = "paused", 0, "" // nothing is held: the limit has passed on arrival
			case 'R':
				g.kind, g.msg = "running", ""
			case 'S':
				g.kind, g.msg = "stopped", fmt.Sprintf("msg-%d <b>", i)
			}
			gcmds = append(gcmds, cmdList[i])
			states = append(states, g)
		}
		stalled := w.HadStall()
		n := len(c.seq)
		for _, r := range w.Reqs {
			if !strings.HasPrefix(r.ID, "c") {
				continue
			}
			if !r.Done {
				vs = append(vs, Violation{"C07", "request-never-answered", r.ID})
				continue
			}
			stalledNow := w.HadStall()
			jmin, jmax := 0, 0
			for _, cm := range gcmds {
				// a gate command takes effect when it starts (the drain follows): without stalls a request arriving at a
				// later virtual instant cannot have seen the earlier state
				if cm.EndSeq < r.StartSeq || (!stalledNow && cm.Start < r.Start) {
					jmin++
				}
				if cm.StartSeq < r.EndSeq {
					jmax++
				}
			}
			// target sets in force at some point of the request's life
			dmin, dmax := 0, 0
			for _, cm := range dcmds {
				if cm.EndSeq < r.StartSeq {
					dmin++
				}
				if cm.StartSeq < r.EndSeq {
					dmax++
				}
			}
			isHealthGet := r.Spec.Path == vHealthPath && (r.Spec.Method == "" || r.Spec.Method == "GET")
			// observed class
			body := string(r.Body)
			obs := fmt.Sprintf("status-%d", r.Status)
			switch {
			case r.Status == 200 && r.ServedBy() != "":
				obs = "forwarded:" + r.ServedBy()
			case r.Status == 200 && r.ServedBy() == "" && len(r.Body) == 0:
				obs = "proxy-200"
			case r.Status == 503:
				obs = "503-plain"
				for _, g := range states {
					if g.msg != "" && (strings.Contains(body, html.EscapeString(g.msg)) || strings.Contains(body, strings.ReplaceAll(html.EscapeString(g.msg), "&#34;", "&quot;"))) {
						obs = "503:" + g.msg
					}
				}
			case r.Status == 504:
				obs = "504"
			}
			// forwardedFrom(x): the request proceeds under gate state x (x = 0: the state it arrived in; otherwise the state
			// gate command x established, e.g. the resume that released it): it goes to a target set in force between
			// that moment and its end
			forwardedFrom := func(x int) map[string]bool {
				res := map[string]bool{}
				lo := dmin
				if x >= 1 && x-1 < len(gcmds) {
					dlo := 0
					for _, cm := range dcmds {
						if cm.EndSeq < gcmds[x-1].StartSeq {
							dlo++
						}
					}
					if dlo > lo {
						lo = dlo
					}
				}
				for y := lo; y <= dmax; y++ {
					res["forwarded:"+dTargets[y]] = true
				}
				return res
			}
			explained := false
			var tried []string
			for j := jmin; j <= jmax && !explained; j++ {
				g := states[j]
				pred := map[string]bool{}
				switch g.kind {
				case "running":
					pred = forwardedFrom(j)
				case "stopped":
					if isHealthGet {
						pred["proxy-200"] = true
					} else {
						pred["503:"+g.msg] = true
					}
				case "paused":
					if isHealthGet {
						pred["proxy-200"] = true
						break
					}
					// first command after j that leaves the paused state
					k := -1
					for x := j + 1; x <= jmax; x++ {
						if states[x].kind != "paused" {
							k = x
							break
						}
					}
					if k >= 0 && g.limit > 0 {
						for x := k; x <= jmax; x++ {
							switch states[x].kind {
							case "stopped":
								pred["503:"+states[x].msg] = true
							case "running":
								for o := range forwardedFrom(x) {
									pred[o] = true
								}
							}
							// (a later pause explains nothing: a request released by a stop is answered 503, it is not
							// forwarded while the service is paused again)
						}
					}
					// timeout
					if obs == "504" {
						if stalled {
							pred["504"] = true
						} else {
							for x := j; x <= jmax && states[x].kind == "paused"; x++ {
								at := r.Start + states[x].limit
								released := k >= 0 && k-1 < len(gcmds) && gcmds[k-1].Start < at
								if r.End == at && !released {
									pred["504"] = true
								}
							}
							// released by command k and held again by a pause issued at the same instant (before the
							// woken request got anywhere): that hold runs from the later pause
							if k >= 1 && k-1 < len(gcmds) {
								for x := k + 1; x <= jmax; x++ {
									if states[x].kind == "paused" && x-1 < len(gcmds) && gcmds[x-1].Start == gcmds[k-1].Start && r.End == gcmds[x-1].Start+states[x].limit {
										pred["504"] = true
									}
								}
							}
						}
					}
				}
				tried = append(tried, fmt.Sprintf("arrival under %s(%v,%q) targets %v predicts %v", g.kind, g.limit, g.msg, dTargets[dmin:dmax+1], sortedKeys(pred)))
				if pred[obs] {
					explained = true
					// a released request must be answered when it is released (no stall: virtual time exact)
					if g.kind == "paused" && !isHealthGet && obs != "504" && !stalled {
						okTime := false
						for x := j + 1; x <= jmax; x++ {
							cm := gcmds[x-1]
							if r.End >= cm.Start && r.End <= cm.End {
								okTime = true
							}
						}
						if !okTime {
							explained = false
						}
					}
				}
			}
			if explained {
				continue
			}
			if obs == "503-plain" && stalled && w.ProbeFailures() > 0 && strings.HasSuffix(lastSites(r.Sites, 1), "claimTarget") {
				// a stalled probe timed out: "no healthy target" is C09's behaviour, not a refusal by the pause
				continue
			}
			// signature
			sig := "unexplained " + obs
			anyStop := strings.Contains(c.seq, "S")
			switch {
			case isHealthGet:
				sig = "health-check-GET answered " + strings.SplitN(obs, ":", 2)[0]
			case strings.HasPrefix(obs, "forwarded:") && dmax > 0 && obs != "forwarded:"+dTargets[dmax]:
				sig = "held-or-passing-request-served-by-replaced-target"
			case obs == "503-plain":
				sig = "refused-without-stop-message via " + lastSites(r.Sites, 2)
				_ = anyStop
				// refused while no command was draining the targets (nothing explains a draining target then)
				duringDrain := false
				for x, cm := range cmdList {
					if strings.ContainsRune("PpzSD", rune(c.seq[x])) && cm.StartSeq < r.EndSeq && r.EndSeq < cm.EndSeq {
						duringDrain = true
					}
				}
				if !duringDrain {
					sig = "refused-without-stop-message while-no-command-is-draining via " + lastSites(r.Sites, 2)
				}
				// without stalls the gate closes at the virtual instant the command starts: a request
				// arriving at a later instant cannot have passed it legitimately
				if !stalled {
					for x, cm := range cmdList {
						if (c.seq[x] == 'P' || c.seq[x] == 'p' || c.seq[x] == 'z' || c.seq[x] == 'S') && cm.StartSeq < r.StartSeq && r.Start > cm.Start && r.Start <= cm.End {
							sig += " arrived-after-gate-closed"
							break
						}
					}
				}
			case obs == "504":
				sig = "held-request-timed-out-wrongly"
			}
			vs = append(vs, Violation{"C07", sig, fmt.Sprintf("request %s [%v..%v] observed %s (end %v); commands %s at %v; no arrival point explains it: %s", r.ID, r.Start, r.End, obs, r.End, c.seq, cmdTimes(cmdList), strings.Join(tried, " | "))})
			_ = n
		}
		return vs
	}
	return sc
}

func cmdTimes(cs []*CmdObs) string {
	var p []string
	for _, c := range cs {
		p = append(p, fmt.Sprintf("%s[%v..%v]", c.Name, c.Start, c.End))
	}
	return strings.Join(p, ",")
}

func checkC07(t *testing.T, job *Job, res *Result) {
	tier := job.Tier
	if job.Replay != nil {
		tier = job.Replay.Tier
	}
	var scs []*Scenario
	for i, c := range c07Configs(tier) {
		sc := c07Scenario(c)
		if tier == "quick" && i%5 != 0 && !c.deep {
			sc.Bounds = &Bounds{D: 1, S: 1, Total: 1}
		}
		scs = append(scs, sc)
	}
	b := Bounds{D: 2, S: 2, Total: 2}
	res.Rule = "configurations = command sequences over {pause(3.15s), pause(1.05s), pause(0), resume, stop(msg), redeploy} (length<=2 quick, <=3 thorough) x client sets {ordinary GET, GET and POST on the health path} arriving at offsets between the commands, plus sequences whose second command is issued by another operator while the first one is still draining a request that never finishes; per configuration every schedule within the bounds; oracle: each request must be explained by SOME arrival point of a sequential gate model (DESIGN.md C07), exact virtual times without stalls"
	runS(t, job, res, "C07", scs, b, 8000)
	if tier == "quick" {
		res.Bounds = "every configuration with <=1 deviation (thread, select order or stall); every 5th configuration with <=2"
	}
}
