//go:build verif

package server

import (
	"bytes"
	"fmt"
	"net/http"
	"strings"
	"sync"
	"testing"
	"time"

	"github.com/basecamp/kamal-proxy/internal/verif/memnet"
	"github.com/basecamp/kamal-proxy/internal/verif/vsched"
	"github.com/basecamp/kamal-proxy/internal/verif/vsync"
)

func init() { checks["C13"] = checkC13 }

type c13mount struct {
	name   string
	host   string
	prefix string // matched prefix for requests generated under this mount
	strip  bool
}

var c13Mounts = []c13mount{
	{"root", "m1.example.com", "/", true},
	{"app-stripped", "m2.example.com", "/app", true},
	{"app-unstripped", "m3.example.com", "/app", false},
	{"app-v2-beside-app", "m4.example.com", "/app/v2", true},
	{"root-buffered", "m5.example.com", "/", true}, // request and response buffering with a 40000-byte memory limit
}

var c13Segments = []string{"a", "a%2Fb", "%41", "a%20b", "app", "", ";p=1", "a+b", "%E2%82%AC"}
var c13Queries = []string{"", "a=1", "a=1&a=2", "p=a;b", "x=%zz", "q=%2F%3F", "?", "&&"}
var c13Methods = []string{"GET", "HEAD", "POST", "PUT", "PATCH", "DELETE", "OPTIONS"}
var c13HeaderSets = [][][2]string{
	nil,
	{{"X-Custom", "a"}, {"X-Custom", "b"}, {"x-odd-CASE", "v"}, {"Accept", "*/*"}},
	{{"X-Forwarded-For", "1.1.1.1, 2.2.2.2"}, {"X-Forwarded-Proto", "https"}, {"X-Forwarded-Host", "evil.example"}},
	{{"X-Request-ID", "my-id-123"}},
	{{"X-Request-Start", "t=12345"}},
	{{"Connection", "x-hop"}, {"X-Hop", "1"}, {"X-Keep", "2"}},
	// a forwarding chain sent on several header lines
	{{"X-Forwarded-For", "10.10.10.10"}, {"x-forwarded-for", "10.20.20.20, 10.30.30.30"}, {"X-Forwarded-For", "10.40.40.40"}},
}
var c13Bodies = []string{"none", "1", "70k", "70k-chunked"}
var c13Responses = []string{"r200", "r201", "r204", "r301", "r404", "r500", "r503", "rbig", "rchunk", "rhints"}

var bigBody = bytes.Repeat([]byte("0123456789abcdef"), 70*1024/16)

func c13RawResponses(n *memnet.Net) {
	n.Raw["r200"] = &memnet.Response{Status: 200, Header: [][2]string{{"X-Resp", "1"}, {"Set-Cookie", "a=1; Path=/"}, {"Set-Cookie", "b=2"}, {"Content-Type", "text/plain"}}, Body: []byte("hello")}
	n.Raw["r201"] = &memnet.Response{Status: 201, Header: [][2]string{{"Location", "/created/1"}}, Body: []byte{}}
	n.Raw["r204"] = &memnet.Response{Status: 204}
	n.Raw["r301"] = &memnet.Response{Status: 301, Header: [][2]string{{"Location", "/other?x=1"}}, Body: []byte("moved")}
	n.Raw["r404"] = &memnet.Response{Status: 404, Body: []byte("nf")}
	n.Raw["r500"] = &memnet.Response{Status: 500, Body: []byte("err")}
	n.Raw["r503"] = &memnet.Response{Status: 503, Header: [][2]string{{"Retry-After", "7"}}, Body: []byte("target says 503")}
	n.Raw["rbig"] = &memnet.Response{Status: 200, Body: bytes.Repeat([]byte("R"), 100*1024)}
	n.Raw["rchunk"] = &memnet.Response{Status: 200, Chunked: true, Body: []byte("chunk-one|chunk-two|chunk-three")}
	{
		// the header arrives at once, the body is complete only after the target timeout has passed
		raw := "HTTP/1.1 200 OK\r\nContent-Length: 21\r\nX-Slow: yes\r\n\r\nslow-part1|slow-part2"
		n.Raw["rslow"] = &memnet.Response{Status: 200, Raw: []byte(raw), Gaps: []memnet.Gap{{Offset: len(raw) - 10, Wait: vTargetTO + 800*time.Millisecond}}}
	}
	n.Raw["rsse"] = &memnet.Response{Raw: []byte("HTTP/1.1 200 OK\r\nContent-Type: text/event-stream\r\nX-Target: sse\r\n\r\ndata: one\n\ndata: two\n\n"), CloseAfter: true}
	n.Raw["rhints"] = &memnet.Response{Raw: []byte("HTTP/1.1 103 Early Hints\r\nLink: </style.css>; rel=preload\r\n\r\nHTTP/1.1 404 Not Found\r\nContent-Length: 6\r\nX-After-Hints: yes\r\n\r\nnf-103")}
}

type c13in struct {
	mount   int
	fwd     bool
	method  string
	rest    string // path after the mount prefix, e.g. "/a%2Fb/"
	query   string
	hdr     int
	tls     bool
	body    string
	resp    string
	special string // full raw path overriding mount+rest (look-alikes)
}

func (c c13in) name() string {
	return fmt.Sprintf("mount=%s fwd=%v %s rest=%q q=%q hdr=%d tls=%v body=%s resp=%s special=%q", c13Mounts[c.mount].name, c.fwd, c.method, c.rest, c.query, c.hdr, c.tls, c.body, c.resp, c.special)
}

var (
	c13idsMu sync.Mutex
	c13ids   = map[string]string{}
)

func c13Setup(w *World) error {
	c13RawResponses(w.Net)
	for _, fwd := range []bool{false, true} {
		pfx := ""
		if fwd {
			pfx = "f-"
		}
		dep := func(svc, host, path, target string, strip bool) error {
			w.AddTarget(target)
			a := deployArgs(svc, []string{target}, []string{pfx + host}, []string{path})
			a.ServiceOptions.StripPrefix = strip
			a.ServiceOptions.TLSEnabled = false
			a.TargetOptions.ForwardHeaders = fwd
			if strings.HasPrefix(host, "m5.") {
				a.TargetOptions.BufferRequests, a.TargetOptions.BufferResponses = true, true
				a.TargetOptions.MaxMemoryBufferSize = 40000
			}
			if r := w.Deploy(a); r.Err != nil {
				return r.Err
			}
			return nil
		}
		for i, m := range c13Mounts {
			if err := dep(fmt.Sprintf("%ssvc%d", pfx, i), m.host, m.prefix, fmt.Sprintf("%st%d:80", pfx, i), m.strip); err != nil {
				return err
			}
		}
		// m4 also has a service on /app so that /app/v2 is "beside" it
		if err := dep(pfx+"svc4b", "m4.example.com", "/app", pfx+"t4b:80", true); err != nil {
			return err
		}
	}
	// one service mounted on two prefixes (both stripped), plain and with request buffering: requests of the same
	// service with different matched prefixes in progress at the same time
	for i, host := range []string{"m6.example.com", "m7.example.com"} {
		tn := fmt.Sprintf("t6%c:80", 'a'+i)
		w.AddTarget(tn)
		a := deployArgs(fmt.Sprintf("svc6%c", 'a'+i), []string{tn}, []string{host}, []string{"/api", "/app"})
		a.ServiceOptions.StripPrefix = true
		a.ServiceOptions.TLSEnabled = false
		if i == 1 {
			a.TargetOptions.BufferRequests = true
			a.TargetOptions.MaxMemoryBufferSize = 40000
		}
		if r := w.Deploy(a); r.Err != nil {
			return r.Err
		}
	}
	c13idsMu.Lock()
	c13ids = map[string]string{}
	c13idsMu.Unlock()
	return nil
}

// c13RedeploySameTarget: a service is redeployed onto the SAME target with one option changed (header forwarding on /
// off, prefix stripping on / off): the next request must be treated according to the new deployment.
func c13RedeploySameTarget(w *World) []Violation {
	var vs []Violation
	add := func(sig, d string) { vs = append(vs, Violation{"C13", sig, "redeploy onto the same target: " + d}) }
	w.AddTarget("t8:80")
	seen := func(marker string) *memnet.Event {
		evs := w.Net.Events()
		for i := len(evs) - 1; i >= 0; i-- {
			if evs[i].Kind == "req" && evs[i].Header.Get("X-Verif-Marker") == marker {
				return &evs[i]
			}
		}
		return nil
	}
	step := 0
	for _, fwd := range []bool{false, true, false, true} {
		for _, strip := range []bool{true, false} {
			step++
			a := deployArgs("svc8", []string{"t8:80"}, []string{"m8.example.com"}, []string{"/app"})
			a.ServiceOptions.StripPrefix = strip
			a.ServiceOptions.TLSEnabled = false
			a.TargetOptions.ForwardHeaders = fwd
			if r := w.Deploy(a); r.Err != nil {
				add("redeploy-failed", r.Err.Error())
				return vs
			}
			mk := fmt.Sprintf("mk8-%d-%d", c13seq, step)
			w.Do(ReqSpec{ID: mk, Host: "m8.example.com", Path: "/app/x", Header: [][2]string{{"X-Forwarded-For", "10.66.66.66"}, {"X-Forwarded-Proto", "https"}, {"X-Forwarded-Host", "spoofed.example.com"}, {"X-Verif-Marker", mk}}})
			ev := seen(mk)
			if ev == nil {
				add("request-not-forwarded", fmt.Sprintf("step %d", step))
				continue
			}
			wantFor, wantProto, wantHost := "192.0.2.7", "http", "m8.example.com"
			if fwd {
				wantFor, wantProto, wantHost = "10.66.66.66, 192.0.2.7", "https", "spoofed.example.com"
			}
			if g := strings.Join(ev.Header["X-Forwarded-For"], ", "); g != wantFor || ev.Header.Get("X-Forwarded-Proto") != wantProto || ev.Header.Get("X-Forwarded-Host") != wantHost {
				add(fmt.Sprintf("x-forwarded-for fwd=%v after-redeploy-of-same-target", fwd), fmt.Sprintf("step %d: target saw For=%q Proto=%q Host=%q, the deployment in force says forwarding=%v", step, g, ev.Header.Get("X-Forwarded-Proto"), ev.Header.Get("X-Forwarded-Host"), fwd))
			}
			wantURI := "/app/x"
			if strip {
				wantURI = "/x"
			}
			if ev.URI != wantURI {
				add("strip-setting-not-applied-after-redeploy-of-same-target", fmt.Sprintf("step %d: target saw %q, expected %q (strip=%v)", step, ev.URI, wantURI, strip))
			}
		}
	}
	c13seq++
	return vs
}

// c13Concurrent: two requests of one service that matched different prefixes overlap (held by a pause, or one of
// them uploading slowly into the request buffer); each must reach the target with its own prefix removed.
func c13Concurrent(kind string) func(w *World) []Violation {
	return func(w *World) []Violation {
		var vs []Violation
		add := func(sig, d string) { vs = append(vs, Violation{"C13", sig, "concurrent " + kind + ": " + d}) }
		c13seq++
		m1, m2 := fmt.Sprintf("mk-%d-1", c13seq), fmt.Sprintf("mk-%d-2", c13seq)
		var wg vsync.WaitGroup
		wg.Add(2)
		var o1, o2 *ReqObs
		switch kind {
		case "held-by-pause":
			w.Pause("svc6a", vD, vMaxPause)
			vsched.GoTagged("client", func() {
				defer wg.Done()
				o1 = w.Do(ReqSpec{ID: m1, Host: "m6.example.com", Path: "/api/one%2Fa?x=1;y", Header: [][2]string{{"X-Verif-Marker", m1}}})
			})
			time.Sleep(50 * time.Millisecond)
			vsched.GoTagged("client", func() {
				defer wg.Done()
				o2 = w.Do(ReqSpec{ID: m2, Host: "m6.example.com", Path: "/app/two", Header: [][2]string{{"X-Verif-Marker", m2}}})
			})
			time.Sleep(50 * time.Millisecond)
			w.Resume("svc6a")
		case "slow-buffered-upload":
			vsched.GoTagged("client", func() {
				defer wg.Done()
				o1 = w.Do(ReqSpec{ID: m1, Method: "POST", Host: "m7.example.com", Path: "/api/upload%2Fa?k=v;w", Header: [][2]string{{"X-Verif-Marker", m1}},
					BodyChunks: [][]byte{[]byte("hello "), []byte("world")}, BodyGap: 200 * time.Millisecond})
			})
			time.Sleep(50 * time.Millisecond)
			vsched.GoTagged("client", func() {
				defer wg.Done()
				o2 = w.Do(ReqSpec{ID: m2, Host: "m7.example.com", Path: "/app/two", Header: [][2]string{{"X-Verif-Marker", m2}}})
			})
		}
		wg.Wait()
		want := map[string]string{m1: "/one%2Fa?x=1;y", m2: "/two"}
		if kind == "slow-buffered-upload" {
			want[m1] = "/upload%2Fa?k=v;w"
		}
		seen := map[string]string{}
		for _, e := range w.Net.Events() {
			if e.Kind == "req" {
				if mk := e.Header.Get("X-Verif-Marker"); mk == m1 || mk == m2 {
					seen[mk] = e.URI
				}
			}
		}
		for mk, wu := range want {
			if seen[mk] != wu {
				add("prefix-not-stripped-under-concurrency", fmt.Sprintf("target saw request-target %q, expected %q", seen[mk], wu))
			}
		}
		for _, o := range []*ReqObs{o1, o2} {
			if o == nil || o.Status != 200 {
				add("concurrent-request-failed", fmt.Sprint(o != nil && o.Done))
			}
		}
		return vs
	}
}

// c13AfterEventStream: a buffering service serves an event stream (which bypasses the buffer); afterwards two buffered
// exchanges overlap in time: each client gets exactly its own target response.
func c13AfterEventStream(w *World) []Violation {
	var vs []Violation
	add := func(sig, d string) { vs = append(vs, Violation{"C13", sig, d}) }
	const host = "m5.example.com"
	c13seq++
	o := w.Do(ReqSpec{ID: fmt.Sprintf("sse-%d", c13seq), Host: host, Path: "/events", Plan: "r=rsse"})
	if o.Status != 200 || !strings.Contains(string(o.Body), "data: two") {
		add("event-stream-broken", o.Summary()+" "+firstN(o.Body, 60))
	}
	for round := 0; round < 4; round++ {
		// one slow buffered response (its body completes late) with a growing number of quick buffered exchanges
		// (request bodies and responses) started while it is in progress
		var wg vsync.WaitGroup
		var slow *ReqObs
		nfast := round + 1
		fast := make([]*ReqObs, nfast)
		c13seq++
		k := c13seq
		wg.Add(1 + nfast)
		vsched.GoTagged("client", func() {
			defer wg.Done()
			slow = w.Do(ReqSpec{ID: fmt.Sprintf("slow-%d", k), Host: host, Path: "/slow", Plan: "r=rslow"})
		})
		time.Sleep(100 * time.Millisecond)
		for i := 0; i < nfast; i++ {
			i := i
			vsched.GoTagged("client", func() {
				defer wg.Done()
				fast[i] = w.Do(ReqSpec{ID: fmt.Sprintf("fast-%d-%d", k, i), Method: "POST", Host: host, Path: "/fast", Body: []byte(fmt.Sprintf("fast-request-body-%d", i)), Plan: "r=r200"})
			})
		}
		wg.Wait()
		if slow == nil || slow.Status != 200 || string(slow.Body) != "slow-part1|slow-part2" {
			s := "none"
			if slow != nil {
				s = slow.Summary() + " body " + firstN(slow.Body, 60)
			}
			add("response-body-changed after-event-stream", "slow buffered response overlapping others: "+s)
		}
		for i, f := range fast {
			if f == nil || f.Status != 200 || string(f.Body) != "hello" {
				s := "none"
				if f != nil {
					s = f.Summary() + " body " + firstN(f.Body, 60)
				}
				add("response-body-changed after-event-stream", "quick buffered response overlapping others: "+s)
				continue
			}
			for _, e := range w.Net.Events() {
				if e.Kind == "req" && e.ReqID == f.ID && string(e.Body) != fmt.Sprintf("fast-request-body-%d", i) {
					add("request-body-changed after-event-stream", fmt.Sprintf("the target saw %q", firstN(e.Body, 60)))
				}
			}
		}
	}
	return vs
}

// c13SlowBodies: the target timeout bounds the wait for the target's response header, not the transfer of bodies: a
// response whose body completes after the timeout (header in time), and an upload that takes longer than the timeout,
// pass unchanged, with and without buffering.
func c13SlowBodies(w *World) []Violation {
	var vs []Violation
	add := func(sig, d string) { vs = append(vs, Violation{"C13", sig, d}) }
	for _, host := range []string{"m1.example.com", "m5.example.com"} {
		c13seq++
		mk := fmt.Sprintf("slow-%d", c13seq)
		o := w.Do(ReqSpec{ID: mk, Host: host, Path: "/slow", Plan: "r=rslow"})
		if o.Status != 200 || string(o.Body) != "slow-part1|slow-part2" || o.Header.Get("X-Slow") != "yes" || o.Aborted {
			add("slow-response-body-not-returned-unchanged", fmt.Sprintf("%s: target answered its header at once and finished the body %v later (target timeout %v): client got %s body %q", host, vTargetTO+800*time.Millisecond, vTargetTO, o.Summary(), firstN(o.Body, 40)))
		}
		c13seq++
		mk = fmt.Sprintf("slowup-%d", c13seq)
		o = w.Do(ReqSpec{ID: mk, Method: "POST", Host: host, Path: "/upload", BodyChunks: [][]byte{[]byte("first-half|"), []byte("second-half")}, BodyGap: vTargetTO + 800*time.Millisecond})
		var got []byte
		found := false
		for _, e := range w.Net.Events() {
			if e.Kind == "req" && e.ReqID == mk {
				got, found = e.Body, true
			}
		}
		if o.Status != 200 || !found || string(got) != "first-half|second-half" {
			add("slow-upload-not-forwarded-unchanged", fmt.Sprintf("%s: upload taking %v (target timeout %v): client got %s, target saw %q (reached=%v)", host, vTargetTO+800*time.Millisecond, vTargetTO, o.Summary(), firstN(got, 40), found))
		}
	}
	return vs
}

// c13RolloutGroupUnhealthy: a request of the rollout group while no rollout target is healthy. Whatever the proxy
// decides to do with it, a response that comes from a target (chunked, no declared length) is returned unchanged.
func c13RolloutGroupUnhealthy(w *World) []Violation {
	var vs []Violation
	w.AddTarget("c13act:80")
	w.AddTarget("c13roll:80", pOK(), p500())
	if r := w.Deploy(deployArgs("c13ru", []string{"c13act:80"}, []string{"ru.example.com"}, nil)); r.Err != nil {
		return []Violation{{"C13", "setup", r.Err.Error()}}
	}
	if r := w.RolloutDeploy("c13ru", []string{"c13roll:80"}); r.Err != nil {
		return []Violation{{"C13", "setup", r.Err.Error()}}
	}
	w.RolloutSet("c13ru", 100, nil)
	time.Sleep(2*vI + 300*time.Millisecond)
	for _, plan := range []string{"r=rchunk", "r=r200", "r=r404"} {
		c13seq++
		o := w.Do(ReqSpec{ID: fmt.Sprintf("ru-%d", c13seq), Host: "ru.example.com", Path: "/x", Cookie: "kamal-rollout=v", Plan: plan})
		if o.ServedBy() == "" {
			continue // answered by the proxy itself
		}
		want := w.Net.Raw[strings.TrimPrefix(plan, "r=")]
		if want != nil && (o.Status != want.Status || string(o.Body) != string(want.Body)) {
			vs = append(vs, Violation{"C13", "response-body-changed rollout-group-unhealthy", fmt.Sprintf("response from %s (%s): status %d body %q, the target sent status %d body %q", o.ServedBy(), plan, o.Status, firstN(o.Body, 80), want.Status, firstN(want.Body, 80))})
		}
	}
	return vs
}

var c13seq int

func c13Run(c c13in) func(w *World) []Violation {
	return func(w *World) []Violation {
		var vs []Violation
		add := func(sig, detail string) {
			vs = append(vs, Violation{"C13", sig, c.name() + ": " + detail})
		}
		m := c13Mounts[c.mount]
		host := m.host
		if c.fwd {
			host = "f-" + host
		}
		rawPath := strings.TrimSuffix(m.prefix, "/") + c.rest
		if rawPath == "" {
			rawPath = "/"
		}
		if c.special != "" {
			rawPath = c.special
		}
		target := rawPath
		if c.query != "" {
			target += "?" + c.query
		}
		c13seq++
		spec := ReqSpec{Method: c.method, Host: host, Path: target, TLS: false, Plan: "r=" + c.resp}
		spec.Header = append(spec.Header, c13HeaderSets[c.hdr]...)
		clientReqID := ""
		for _, kv := range spec.Header {
			if strings.EqualFold(kv[0], "X-Request-ID") {
				clientReqID = kv[1]
			}
		}
		marker := fmt.Sprintf("mk-%d", c13seq)
		spec.Header = append(spec.Header, [2]string{"X-Verif-Marker", marker})
		spec.ID = "-" // suppress the harness request id
		var body []byte
		switch c.body {
		case "1":
			body = []byte("x")
		case "70k", "70k-chunked":
			body = bigBody
			spec.Chunked = c.body == "70k-chunked"
		}
		spec.Body = body
		o := w.doRaw(spec)
		// find the target-side record
		var ev *memnet.Event
		evs := w.Net.Events()
		for i := len(evs) - 1; i >= 0 && i >= len(evs)-40; i-- {
			if evs[i].Kind == "req" && evs[i].Header.Get("X-Verif-Marker") == marker {
				ev = &evs[i]
				break
			}
		}
		// which target should have got it
		wantTarget := fmt.Sprintf("t%d:80", c.mount)
		matched := m.prefix
		if c.special != "" {
			// look-alikes under m2/m3/m4 fall to whatever the routing rule says; on those hosts only /app.. is bound
			wantTarget, matched = c13Route(c.mount, rawPath)
		}
		if c.fwd && wantTarget != "" {
			wantTarget = "f-" + wantTarget
		}
		if wantTarget == "" {
			if o.Status != 404 {
				add("unrouted-request-not-404", fmt.Sprintf("got %s", o.Summary()))
			}
			return vs
		}
		if ev == nil {
			add("request-did-not-reach-target", fmt.Sprintf("client got %s", o.Summary()))
			return vs
		}
		if ev.Target != wantTarget {
			add("wrong-target", fmt.Sprintf("reached %s, expected %s", ev.Target, wantTarget))
		}
		// ---- request as seen by the target
		if ev.Method != c.method {
			add("method-changed", fmt.Sprintf("target saw %s", ev.Method))
		}
		wantPath := rawPath
		if m.strip && matched != "/" {
			wantPath = strings.TrimPrefix(rawPath, matched)
			if wantPath == "" {
				wantPath = "/"
			}
		}
		wantURI := wantPath
		if c.query != "" {
			wantURI += "?" + c.query
		}
		if ev.URI != wantURI {
			sig := "path-or-query-altered"
			gp, gq, _ := strings.Cut(ev.URI, "?")
			if gq != c.query && !(c.query == "?" && gq == "?") {
				sig = "query-altered"
			} else if gp != wantPath {
				sig = "path-altered"
				if m.strip && matched != "/" {
					sig = "strip-reencodes-path"
					if strings.Contains(wantPath, "%") || strings.Contains(wantPath, ";") || strings.Contains(wantPath, "+") || strings.Contains(wantPath, "//") {
						sig = "strip-reencodes-path"
					} else {
						sig = "strip-path-altered"
					}
				}
			}
			add(sig, fmt.Sprintf("target saw request-target %q, expected %q", ev.URI, wantURI))
		}
		if ev.Host != host {
			add("host-changed", fmt.Sprintf("target saw Host %q", ev.Host))
		}
		hop := map[string]bool{"Connection": true, "X-Hop": true}
		fwdHdr := map[string]bool{"X-Forwarded-For": true, "X-Forwarded-Proto": true, "X-Forwarded-Host": true}
		wantVals := map[string][]string{}
		for _, kv := range c13HeaderSets[c.hdr] {
			k := http.CanonicalHeaderKey(kv[0])
			wantVals[k] = append(wantVals[k], kv[1])
		}
		for k, v := range wantVals {
			if hop[k] || fwdHdr[k] {
				continue
			}
			if strings.Join(ev.Header[k], "\x00") != strings.Join(v, "\x00") {
				add("request-header-altered "+k, fmt.Sprintf("target saw %q, client sent %q", ev.Header[k], v))
			}
		}
		if c.hdr == 5 && (ev.Header.Get("X-Hop") != "") {
			add("hop-by-hop-header-forwarded", fmt.Sprintf("X-Hop=%q", ev.Header.Get("X-Hop")))
		}
		// forwarding headers
		scheme := "http"
		wantFor, wantProto, wantHost := "192.0.2.7", scheme, host
		if c.fwd {
			if v := wantVals["X-Forwarded-For"]; len(v) > 0 {
				wantFor = strings.Join(v, ", ") + ", 192.0.2.7"
			}
			if v := wantVals["X-Forwarded-Proto"]; len(v) > 0 {
				wantProto = v[0]
			}
			if v := wantVals["X-Forwarded-Host"]; len(v) > 0 {
				wantHost = v[0]
			}
		}
		if g := strings.Join(ev.Header["X-Forwarded-For"], ", "); g != wantFor {
			add(fmt.Sprintf("x-forwarded-for fwd=%v", c.fwd), fmt.Sprintf("target saw %q, expected %q", g, wantFor))
		}
		if g := ev.Header.Get("X-Forwarded-Proto"); g != wantProto {
			add(fmt.Sprintf("x-forwarded-proto fwd=%v", c.fwd), fmt.Sprintf("target saw %q, expected %q", g, wantProto))
		}
		if g := ev.Header.Get("X-Forwarded-Host"); g != wantHost {
			add(fmt.Sprintf("x-forwarded-host fwd=%v", c.fwd), fmt.Sprintf("target saw %q, expected %q", g, wantHost))
		}
		// request id / start
		rid := ev.Header.Get("X-Request-Id")
		if clientReqID != "" {
			if rid != clientReqID {
				add("x-request-id-not-preserved", fmt.Sprintf("target saw %q", rid))
			}
		} else {
			if rid == "" {
				add("x-request-id-missing", "")
			} else {
				c13idsMu.Lock()
				if prev, dup := c13ids[rid]; dup {
					add("x-request-id-not-unique", fmt.Sprintf("%q also given to %s", rid, prev))
				}
				c13ids[rid] = c.name()
				c13idsMu.Unlock()
			}
		}
		rs := ev.Header.Get("X-Request-Start")
		if c.hdr == 4 {
			if rs != "t=12345" {
				add("x-request-start-not-preserved", fmt.Sprintf("target saw %q", rs))
			}
		} else if rs == "" {
			add("x-request-start-missing", "")
		}
		if !bytes.Equal(ev.Body, body) && !(len(ev.Body) == 0 && len(body) == 0) {
			add("request-body-altered", fmt.Sprintf("target got %d bytes, client sent %d", len(ev.Body), len(body)))
		}
		// ---- response as seen by the client
		rp := w.Net.Raw[c.resp]
		wantStatus := rp.Status
		wantBody := rp.Body
		var wantHdr [][2]string = rp.Header
		if c.resp == "rhints" {
			wantStatus, wantBody = 404, []byte("nf-103")
			wantHdr = [][2]string{{"X-After-Hints", "yes"}}
		}
		if o.Status != wantStatus {
			add(fmt.Sprintf("response-status-changed want=%d got=%d", wantStatus, o.Status), o.Summary())
		}
		if o.Header != nil {
			wantH := map[string][]string{}
			for _, kv := range wantHdr {
				wantH[http.CanonicalHeaderKey(kv[0])] = append(wantH[http.CanonicalHeaderKey(kv[0])], kv[1])
			}
			wantH["X-Target"] = []string{ev.Target}
			if c.resp == "rhints" {
				delete(wantH, "X-Target")
			}
			for k, v := range wantH {
				if strings.Join(o.Header[k], "\x00") != strings.Join(v, "\x00") {
					add("response-header-altered "+k, fmt.Sprintf("client saw %q, target sent %q", o.Header[k], v))
				}
			}
		}
		// the declared length is part of the target's response, also when no body follows (HEAD)
		if o.Header != nil && !rp.Chunked && rp.Raw == nil && wantStatus != 204 && wantStatus != 304 {
			if g, want := o.Header.Get("Content-Length"), fmt.Sprint(len(rp.Body)); g != want {
				add("response-header-altered Content-Length", fmt.Sprintf("client saw Content-Length %q, target sent %q (method %s)", g, want, c.method))
			}
		}
		if c.method == "HEAD" || wantStatus == 204 {
			wantBody = nil
		}
		if !bytes.Equal(o.Body, wantBody) && !(len(o.Body) == 0 && len(wantBody) == 0) {
			add("response-body-altered", fmt.Sprintf("client got %d bytes %q, target sent %d bytes", len(o.Body), firstN(o.Body, 40), len(wantBody)))
		}
		if o.Aborted || o.Panic != nil {
			add("handler-aborted", o.Summary())
		}
		return vs
	}
}

// c13Route is the routing rule restricted to the fixed table of c13Setup.
func c13Route(mount int, rawPath string) (string, string) {
	p := rawPath
	if i := strings.IndexAny(p, "?"); i >= 0 {
		p = p[:i]
	}
	// decoded path decides routing; the specials used here contain no escapes
	switch mount {
	case 0:
		return "t0:80", "/"
	case 4:
		return "t4:80", "/"
	case 1, 2:
		if pathMatches(p, "/app") {
			return fmt.Sprintf("t%d:80", mount), "/app"
		}
		return "", ""
	case 3:
		if pathMatches(p, "/app/v2") {
			return "t3:80", "/app/v2"
		}
		if pathMatches(p, "/app") {
			return "t4b:80", "/app"
		}
		return "", ""
	}
	return "", ""
}

// doRaw is Do without the harness' own X-Request-ID (ID "-").
func (w *World) doRaw(spec ReqSpec) *ReqObs {
	return w.Do(spec)
}

func c13Cases(tier string) []ECase {
	var ins []c13in
	maxSeg := 3
	if tier == "thorough" {
		maxSeg = 4
	}
	var rests []string
	var gen func(prefix string, n int)
	gen = func(prefix string, n int) {
		if prefix != "" {
			rests = append(rests, prefix, prefix+"/")
		}
		if n == 0 {
			return
		}
		for _, s := range c13Segments {
			if s == "" && (prefix == "" || strings.HasSuffix(prefix, "//")) {
				continue // no leading "//" (changes routing) and no triple slash
			}
			gen(prefix+"/"+s, n-1)
		}
	}
	gen("", maxSeg)
	rests = append(rests, "", "/")
	k := 0
	// core: path x mount x query, the other dimensions rotate
	for mi := range c13Mounts {
		for _, r := range rests {
			for qi, q := range c13Queries {
				_ = qi
				k++
				ins = append(ins, c13in{mount: mi, fwd: k%2 == 0, method: c13Methods[k%7], rest: r, query: q, hdr: k % 6, body: "none", resp: c13Responses[k%3]})
			}
		}
	}
	// look-alikes and the prefix as a later segment
	for mi := 1; mi < 4; mi++ {
		for _, sp := range []string{"/apple", "/app", "/app/", "/apps/x", "/app/app", "/app/app/x", "/app/v2", "/app/v2/", "/app/v22", "/app/v2/app/v2", "/ap", "/"} {
			for _, q := range []string{"", "a=1"} {
				ins = append(ins, c13in{mount: mi, method: "GET", special: sp, query: q, hdr: 0, body: "none", resp: "r200"})
			}
		}
	}
	// methods x bodies x responses x header sets x fwd on a small path set
	small := []string{"/a", "/a%2Fb/x", ""}
	for _, me := range c13Methods {
		for _, b := range c13Bodies {
			if b != "none" && (me == "GET" || me == "HEAD" || me == "OPTIONS" || me == "DELETE") {
				continue
			}
			for _, rs := range c13Responses {
				for hi := range c13HeaderSets {
					for _, fwd := range []bool{false, true} {
						k++
						ins = append(ins, c13in{mount: k % 5, fwd: fwd, method: me, rest: small[k%3], query: c13Queries[k%8], hdr: hi, body: b, resp: rs})
					}
				}
			}
		}
	}
	var cases []ECase
	for _, k := range []string{"held-by-pause", "slow-buffered-upload"} {
		cases = append(cases, ECase{Name: "concurrent " + k, Class: "concurrent " + k, Run: c13Concurrent(k)})
	}
	cases = append(cases, ECase{Name: "rollout group without a healthy target", Class: "rollout-group-unhealthy", Run: c13RolloutGroupUnhealthy})
	cases = append(cases, ECase{Name: "overlapping buffered exchanges after an event stream", Class: "after-event-stream", Run: c13AfterEventStream})
	cases = append(cases, ECase{Name: "bodies slower than the target timeout", Class: "slow-bodies", Run: c13SlowBodies})
	cases = append(cases, ECase{Name: "redeploy onto the same target with forwarding / stripping flipped", Class: "redeploy-same-target", Run: c13RedeploySameTarget})
	for _, in := range ins {
		in := in
		cases = append(cases, ECase{Name: in.name(), Class: fmt.Sprintf("%s %s hdr=%d body=%s resp=%s fwd=%v", c13Mounts[in.mount].name, in.method, in.hdr, in.body, in.resp, in.fwd), Run: c13Run(in)})
	}
	return cases
}

func checkC13(t *testing.T, job *Job, res *Result) {
	tier := job.Tier
	if job.Replay != nil {
		tier = job.Replay.Tier
	}
	res.Rule = "requests built from raw bytes through Server.buildHandler -> router -> service -> target -> real http.Transport -> in-memory echo target; core = every path of <=3 (thorough <=4) segments over {a, a%2Fb, %41, a%20b, app, empty, ;p=1, a+b, %E2%82%AC} with and without trailing slash x 5 mounts (/, /app stripped, /app unstripped, /app/v2 beside /app, / with request+response buffering) x 8 raw queries, other dimensions rotating; look-alike paths; methods x bodies (none, 1B, 70kB, 70kB chunked) x 10 responses (incl. 103 early hints, target's own 503) x 7 header sets x header forwarding on/off; oracle: wire request and client response compared byte for byte with what was sent; plus two overlapping requests of one service mounted on two stripped prefixes (both held by a pause; one uploading slowly into the request buffer); a service redeployed 8 times onto the same target with header forwarding and prefix stripping flipped"
	res.Bounds = "path segments<=3 quick / <=4 thorough; full product of the path x mount x query core"
	runE(t, job, res, &ESpec{Prop: "C13", Setup: c13Setup, Cases: c13Cases(tier), Batch: 400})
}
