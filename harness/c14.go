//go:build verif

package server

import (
	"bytes"
	"errors"
	"fmt"
	"io"
	"net/http"
	"os"
	"sort"
	"strings"
	"testing"
	"time"

	"github.com/basecamp/kamal-proxy/internal/verif/memnet"
	"github.com/basecamp/kamal-proxy/internal/verif/vsched"
	"github.com/basecamp/kamal-proxy/internal/verif/vsync"
)

func init() { checks["C14"] = checkC14 }

func spillFiles(w *World) []string {
	ents, _ := os.ReadDir(w.Dir + "/tmp")
	var res []string
	for _, e := range ents {
		res = append(res, e.Name())
	}
	return res
}

// ---- level 1: the Buffer itself, every composition of the body into write chunks

func c14Level1(M, L int64, chunks []int, readChunk int) func(w *World) []Violation {
	return func(w *World) []Violation {
		var vs []Violation
		name := fmt.Sprintf("M=%d L=%d chunks=%v read=%d", M, L, chunks, readChunk)
		add := func(sig, d string) { vs = append(vs, Violation{"C14", "buffer " + sig, name + ": " + d}) }
		b := NewBufferedWriteCloser(L, M)
		var accepted []byte
		next := byte('A')
		overflow := false
		for _, c := range chunks {
			p := bytes.Repeat([]byte{next}, c)
			next++
			n, err := b.Write(p)
			wantOverflow := L > 0 && int64(len(accepted)+c) > L
			if wantOverflow && !overflow {
				if !errors.Is(err, ErrMaximumSizeExceeded) || n != 0 {
					add("overflow-not-reported", fmt.Sprintf("write of %d bytes after %d accepted returned (%d, %v)", c, len(accepted), n, err))
				}
				overflow = true
				continue // the response middleware swallows the error: later pieces are still written
			}
			if overflow {
				// whatever the buffer does with pieces after an overflow, it must not fail otherwise or leave anything behind
				if err != nil && !errors.Is(err, ErrMaximumSizeExceeded) {
					add("write-after-overflow-failed", fmt.Sprintf("write of %d bytes after an overflow returned (%d, %v)", c, n, err))
				}
				continue
			}
			if err != nil || n != c {
				add("write-rejected", fmt.Sprintf("write of %d bytes after %d accepted returned (%d, %v)", c, len(accepted), n, err))
				break
			}
			accepted = append(accepted, p...)
			if int64(b.memoryBuffer.Len()) > M {
				add("memory-limit-exceeded", fmt.Sprintf("%d bytes held in memory", b.memoryBuffer.Len()))
			}
			spilled := len(spillFiles(w)) > 0
			if spilled != (int64(len(accepted)) > M) {
				add("spill-file-presence", fmt.Sprintf("accepted=%d spill file present=%v", len(accepted), spilled))
			}
		}
		// (asked through an interface so that the harness still builds when the flag lives elsewhere)
		if fl, ok := any(b).(interface{ Overflowed() bool }); ok && fl.Overflowed() != overflow {
			add("overflowed-flag", fmt.Sprintf("Overflowed()=%v want %v", fl.Overflowed(), overflow))
		}
		if !overflow {
			var got []byte
			buf := make([]byte, readChunk)
			if readChunk == 0 {
				buf = make([]byte, 64)
			}
			for i := 0; i < 100; i++ {
				n, err := b.Read(buf)
				got = append(got, buf[:n]...)
				if err == io.EOF {
					break
				}
				if err != nil {
					add("read-error", err.Error())
					break
				}
			}
			if !bytes.Equal(got, accepted) {
				add("bytes-altered", fmt.Sprintf("read back %q, wrote %q", got, accepted))
			}
		}
		b.Close()
		b.Close()
		if f := spillFiles(w); len(f) > 0 {
			add("spill-file-left-behind", fmt.Sprint(f))
			for _, x := range f {
				os.Remove(w.Dir + "/tmp/" + x)
			}
		}
		return vs
	}
}

func compositions(n int) [][]int {
	if n == 0 {
		return [][]int{{}, {0}}
	}
	var res [][]int
	for mask := 0; mask < 1<<(n-1); mask++ {
		var c []int
		run := 1
		for i := 0; i < n-1; i++ {
			if mask>>i&1 == 1 {
				c = append(c, run)
				run = 1
			} else {
				run++
			}
		}
		c = append(c, run)
		res = append(res, c)
	}
	return res
}

// ---- level 2: through the handler chain

type c14svc struct {
	reqBuf, respBuf bool
	M, Lreq, Lresp  int64
}

func (s c14svc) host(i int) string { return fmt.Sprintf("b%d.example.com", i) }

var c14Services []c14svc

func init() {
	for _, rb := range []bool{false, true} {
		for _, pb := range []bool{false, true} {
			for _, l := range [][3]int64{{4, 0, 0}, {4, 8, 8}, {4, 4, 4}, {0, 8, 8}} {
				if !rb && !pb && l != [3]int64{4, 0, 0} {
					continue
				}
				s := c14svc{reqBuf: rb, respBuf: pb, M: l[0]}
				if rb {
					s.Lreq = l[1]
				}
				if pb {
					s.Lresp = l[2]
				}
				c14Services = append(c14Services, s)
			}
		}
	}
}

func c14Setup(w *World) error {
	// a service whose memory buffer is larger than what a connection takes without being read (memnet.PipeWindow)
	{
		tg := w.AddTarget("btbig:80")
		tg.Responder = c14Responder
		a := deployArgs("bsbig", []string{"btbig:80"}, []string{"big.example.com"}, nil)
		a.TargetOptions.BufferRequests = true
		a.TargetOptions.MaxMemoryBufferSize = 300 << 10
		if r := w.Deploy(a); r.Err != nil {
			return r.Err
		}
	}
	for i, s := range c14Services {
		t := fmt.Sprintf("bt%d:80", i)
		tg := w.AddTarget(t)
		tg.Responder = c14Responder
		a := deployArgs(fmt.Sprintf("bs%d", i), []string{t}, []string{s.host(i)}, nil)
		a.TargetOptions.BufferRequests, a.TargetOptions.BufferResponses = s.reqBuf, s.respBuf
		a.TargetOptions.MaxMemoryBufferSize, a.TargetOptions.MaxRequestBodySize, a.TargetOptions.MaxResponseBodySize = s.M, s.Lreq, s.Lresp
		if r := w.Deploy(a); r.Err != nil {
			return r.Err
		}
	}
	return nil
}

// the response is described in the request header X-Resp: "len=<n>;pat=<one|bytes|split>;kind=<plain|sse|upgrade|cut>"
func c14Responder(req *http.Request, body []byte) *memnet.Response {
	d := req.Header.Get("X-Resp")
	if d == "" {
		return nil
	}
	n, pat, kind := 0, "one", "plain"
	status := 200
	for _, f := range strings.Split(d, ";") {
		k, v, _ := strings.Cut(f, "=")
		switch k {
		case "st":
			fmt.Sscanf(v, "%d", &status)
		case "len":
			fmt.Sscanf(v, "%d", &n)
		case "pat":
			pat = v
		case "kind":
			kind = v
		}
	}
	rb := make([]byte, n)
	for i := range rb {
		rb[i] = byte('a' + i%26)
	}
	r := &memnet.Response{Status: 200, Header: [][2]string{{"X-Resp-Len", fmt.Sprint(n)}}, Body: rb}
	switch kind {
	case "sse":
		ev := "data: one\n\n" + "data: two\n\n" + "data: three\n\n"
		head := "HTTP/1.1 200 OK\r\nContent-Type: text/event-stream\r\nX-Target: sse\r\n\r\n"
		r.Raw = []byte(head + ev)
		r.Gaps = []memnet.Gap{{Offset: len(head) + 11, Wait: 300 * time.Millisecond}, {Offset: len(head) + 22, Wait: 300 * time.Millisecond}}
		r.CloseAfter = true
		return r
	case "cut":
		raw := fmt.Sprintf("HTTP/1.1 200 OK\r\nContent-Length: %d\r\nX-Target: cut\r\n\r\n%s", n, rb)
		r.Raw = []byte(raw)
		r.Fault, r.FaultAt = "close", len(raw)-n/2-1
		return r
	}
	// write pattern with virtual gaps between the pieces
	raw := fmt.Sprintf("HTTP/1.1 %d %s\r\nContent-Length: %d\r\nX-Resp-Len: %d\r\nX-Target: %s\r\n\r\n%s", status, http.StatusText(status), n, n, "buf", rb)
	r.Raw = []byte(raw)
	hl := len(raw) - n
	if req.Method == "HEAD" {
		r.Raw = []byte(raw[:hl]) // the entity's headers, no body
		return r
	}
	switch pat {
	case "bytes":
		for i := 1; i < n; i++ {
			r.Gaps = append(r.Gaps, memnet.Gap{Offset: hl + i, Wait: 10 * time.Millisecond})
		}
	case "split":
		if n > 4 {
			r.Gaps = append(r.Gaps, memnet.Gap{Offset: hl + 4, Wait: 50 * time.Millisecond})
		}
	default:
		// "at:<o1>,<o2>,...": pieces end at the given body offsets
		if strings.HasPrefix(pat, "at:") {
			for _, f := range strings.Split(strings.TrimPrefix(pat, "at:"), ",") {
				o := 0
				fmt.Sscanf(f, "%d", &o)
				if o > 0 && o < n {
					r.Gaps = append(r.Gaps, memnet.Gap{Offset: hl + o, Wait: 50 * time.Millisecond})
				}
			}
		}
	}
	return r
}

type c14in struct {
	svc     int
	reqLen  int
	reqPat  string // one | bytes | split
	respLen int
	respPat string
	kind    string // plain | sse | upgrade | cut | abort-upload | abort-wait
	te      bool   // the request body is sent with Transfer-Encoding: chunked (no declared length)
}

func (c c14in) name() string {
	s := c14Services[c.svc]
	return fmt.Sprintf("svc=%d(reqbuf=%v respbuf=%v M=%d Lreq=%d Lresp=%d) req=%d/%s resp=%d/%s kind=%s te=%v", c.svc, s.reqBuf, s.respBuf, s.M, s.Lreq, s.Lresp, c.reqLen, c.reqPat, c.respLen, c.respPat, c.kind, c.te)
}

// c14EarlyAnswer: the target answers after reading only 2 bytes of a buffered request body and closes the connection
// (the read-out of the buffer is cut short); the next buffered request must still carry exactly its own bytes, and
// nothing is left behind.
func c14EarlyAnswer(c c14in) func(w *World) []Violation {
	return func(w *World) []Violation {
		var vs []Violation
		add := func(sig, d string) { vs = append(vs, Violation{"C14", sig, c.name() + ": " + d}) }
		s := c14Services[c.svc]
		body := make([]byte, c.reqLen)
		for i := range body {
			body[i] = byte('A' + i%26)
		}
		w.reqSeq++
		mk := fmt.Sprintf("c14e-%d", w.reqSeq)
		spec := ReqSpec{ID: mk, Method: "POST", Host: s.host(c.svc), Path: "/x", Header: [][2]string{{"X-Verif-Early", "2"}}}
		switch c.reqPat {
		case "bytes":
			for i := range body {
				spec.BodyChunks = append(spec.BodyChunks, body[i:i+1])
			}
		default:
			spec.BodyChunks = [][]byte{body}
		}
		o := w.Do(spec)
		if !o.Done {
			add("request-unfinished", "early answer")
		}
		// the next request through the same service
		next := []byte("hello-next")
		if s.Lreq > 0 && int64(len(next)) > s.Lreq {
			next = next[:s.Lreq]
		}
		mk2 := mk + "-next"
		o2 := w.Do(ReqSpec{ID: mk2, Method: "POST", Host: s.host(c.svc), Path: "/y", BodyChunks: [][]byte{next}, Header: [][2]string{{"X-Resp", "len=0;pat=one;kind=plain"}}})
		var got []byte
		found := false
		for _, e := range w.Net.Events() {
			if e.Kind == "req" && e.ReqID == mk2 {
				got, found = e.Body, true
			}
		}
		if o2.Status != 200 || !found {
			add("request-after-early-answer-failed", o2.Summary())
		} else if !bytes.Equal(got, next) {
			add("request-body-altered after-early-answer", fmt.Sprintf("the target saw %q, the client sent %q", firstN(got, 60), next))
		}
		if f := spillFiles(w); len(f) > 0 {
			add("spill-file-left-behind kind=early-answer", fmt.Sprint(f))
			for _, x := range f {
				os.Remove(w.Dir + "/tmp/" + x)
			}
		}
		return vs
	}
}

// c14EarlyAnswerBig: a 200 kB body held in memory, the target answers after 2 bytes and closes: most of the body is
// never read out of the buffer. The next buffered body must arrive exactly as sent.
func c14EarlyAnswerBig(w *World) []Violation {
	var vs []Violation
	add := func(sig, d string) { vs = append(vs, Violation{"C14", sig, "200kB body, target answers early: " + d}) }
	big := bytes.Repeat([]byte("0123456789abcdef"), 200*1024/16)
	w.reqSeq++
	mk := fmt.Sprintf("c14big-%d", w.reqSeq)
	o := w.Do(ReqSpec{ID: mk, Method: "POST", Host: "big.example.com", Path: "/x", Header: [][2]string{{"X-Verif-Early", "2"}}, BodyChunks: [][]byte{big}})
	if !o.Done {
		add("request-unfinished", "")
	}
	for i := 0; i < 2; i++ {
		next := []byte(fmt.Sprintf("hello-next-%d", i))
		mk2 := fmt.Sprintf("%s-next%d", mk, i)
		o2 := w.Do(ReqSpec{ID: mk2, Method: "POST", Host: "big.example.com", Path: "/y", BodyChunks: [][]byte{next}, Header: [][2]string{{"X-Resp", "len=0;pat=one;kind=plain"}}})
		var got []byte
		found := false
		for _, e := range w.Net.Events() {
			if e.Kind == "req" && e.ReqID == mk2 {
				got, found = e.Body, true
			}
		}
		if o2.Status != 200 || !found {
			add("request-after-early-answer-failed", o2.Summary())
		} else if !bytes.Equal(got, next) {
			add("request-body-altered after-early-answer", fmt.Sprintf("the target saw %d bytes starting %q, the client sent %q", len(got), firstN(got, 40), next))
		}
	}
	if f := spillFiles(w); len(f) > 0 {
		add("spill-file-left-behind kind=early-answer", fmt.Sprint(f))
		for _, x := range f {
			os.Remove(w.Dir + "/tmp/" + x)
		}
	}
	return vs
}

// c14AfterEventStream: a response-buffering service has served an event stream (which leaves the buffer); afterwards
// buffered responses that overlap in time still reach their clients byte for byte.
func c14AfterEventStream(si int) func(w *World) []Violation {
	return func(w *World) []Violation {
		var vs []Violation
		s := c14Services[si]
		w.reqSeq++
		o := w.Do(ReqSpec{ID: fmt.Sprintf("c14sse-%d", w.reqSeq), Method: "POST", Host: s.host(si), Path: "/x", Header: [][2]string{{"X-Resp", "len=9;pat=one;kind=sse"}}})
		if o.Status != 200 || !strings.Contains(string(o.Body), "data: three") {
			vs = append(vs, Violation{"C14", "event-stream-broken", o.Summary()})
		}
		body := func(n int) string {
			b := make([]byte, n)
			for i := range b {
				b[i] = byte('a' + i%26)
			}
			return string(b)
		}
		for round := 0; round < 3; round++ {
			lens := []int{8, 5, 3, 7}[:2+round%3]
			res := make([]*ReqObs, len(lens))
			var wg vsync.WaitGroup
			for i, n := range lens {
				i, n := i, n
				wg.Add(1)
				pat := "one"
				if i == 0 {
					pat = "bytes" // written byte by byte with gaps: in progress while the others come and go
				}
				w.reqSeq++
				id := fmt.Sprintf("c14ov-%d", w.reqSeq)
				vsched.GoTagged("client", func() {
					defer wg.Done()
					res[i] = w.Do(ReqSpec{ID: id, Method: "POST", Host: s.host(si), Path: "/x", Header: [][2]string{{"X-Resp", fmt.Sprintf("len=%d;pat=%s;kind=plain", n, pat)}}})
				})
				time.Sleep(15 * time.Millisecond)
			}
			wg.Wait()
			for i, n := range lens {
				r := res[i]
				if r == nil || r.Status != 200 || string(r.Body) != body(n) {
					sum := "none"
					if r != nil {
						sum = r.Summary() + " body " + firstN(r.Body, 40)
					}
					vs = append(vs, Violation{"C14", "response-altered after-event-stream", fmt.Sprintf("svc=%d: %d buffered responses in progress at once after an event stream; the one of %d bytes arrived as %s", si, len(lens), n, sum)})
				}
			}
		}
		if f := spillFiles(w); len(f) > 0 {
			vs = append(vs, Violation{"C14", "spill-file-left-behind kind=after-event-stream", fmt.Sprint(f)})
			for _, x := range f {
				os.Remove(w.Dir + "/tmp/" + x)
			}
		}
		return vs
	}
}

// c14DrainDuringUpload: an operator command drains the target while a request body larger than the memory buffer is
// still arriving piece by piece; the drain gives the request up at its deadline, the rest of the body arrives
// afterwards. Whatever the client is answered, the spill file is gone once the request has ended.
func c14DrainDuringUpload(cmd string, drainAfterPieces int) func(w *World) []Violation {
	return func(w *World) []Violation {
		var vs []Violation
		tg := w.AddTarget("btdr:80")
		tg.Responder = c14Responder
		tg2 := w.AddTarget("btdr2:80")
		tg2.Responder = c14Responder
		a := deployArgs("bsdr", []string{"btdr:80"}, []string{"drain.example.com"}, nil)
		a.TargetOptions.BufferRequests, a.TargetOptions.MaxMemoryBufferSize = true, 4
		if r := w.Deploy(a); r.Err != nil {
			return append(vs, Violation{"C14", "deploy-failed", r.Err.Error()})
		}
		pieces := [][]byte{[]byte("abcdef"), []byte("ghijkl"), []byte("mnopqr"), []byte("stuvwx"), []byte("yz0123")}
		var wg vsync.WaitGroup
		wg.Add(1)
		w.reqSeq++
		id := fmt.Sprintf("c14dr-%d", w.reqSeq)
		var o *ReqObs
		vsched.GoTagged("client", func() {
			defer wg.Done()
			o = w.Do(ReqSpec{ID: id, Method: "POST", Host: "drain.example.com", Path: "/x", BodyChunks: pieces, BodyGap: 200 * time.Millisecond,
				Header: [][2]string{{"X-Resp", "len=3;pat=one;kind=plain"}}})
		})
		time.Sleep(time.Duration(drainAfterPieces)*200*time.Millisecond - 100*time.Millisecond)
		during := len(spillFiles(w))
		switch cmd {
		case "pause":
			w.Pause("bsdr", 150*time.Millisecond, vMaxPause)
		case "stop":
			w.Stop("bsdr", 150*time.Millisecond, "m")
		case "redeploy":
			a2 := deployArgs("bsdr", []string{"btdr2:80"}, []string{"drain.example.com"}, nil)
			a2.TargetOptions.BufferRequests, a2.TargetOptions.MaxMemoryBufferSize = true, 4
			a2.DrainTimeout = 150 * time.Millisecond
			w.Deploy(a2)
		}
		wg.Wait()
		if drainAfterPieces >= 2 && during == 0 {
			vs = append(vs, Violation{"C14", "spill-file-presence kind=drain-during-upload", "no spill file although more than the memory buffer had arrived"})
		}
		if f := spillFiles(w); len(f) > 0 {
			sum := "none"
			if o != nil {
				sum = o.Summary()
			}
			vs = append(vs, Violation{"C14", "spill-file-left-behind kind=drain-during-upload", fmt.Sprintf("%s with a 150ms drain timeout after %d of 5 body pieces; the request ended as %s; left: %v", cmd, drainAfterPieces, sum, f)})
			for _, x := range f {
				os.Remove(w.Dir + "/tmp/" + x)
			}
		}
		w.Remove("bsdr")
		return vs
	}
}

// c14ExpectContinue: the client announces its body with `Expect: 100-continue`, the target answers `100 Continue`
// and then its final response (201 / 404 with a body): status, headers and body reach the client unchanged whatever
// is buffered.
func c14ExpectContinue(w *World) []Violation {
	var vs []Violation
	for si, s := range c14Services {
		for _, st := range []int{201, 404, 200} {
			w.reqSeq++
			o := w.Do(ReqSpec{ID: fmt.Sprintf("c14exp-%d", w.reqSeq), Method: "POST", Host: s.host(si), Path: "/x", Body: []byte("abc"),
				Header: [][2]string{{"Expect", "100-continue"}, {"X-Resp", fmt.Sprintf("st=%d;len=3;pat=one;kind=plain", st)}}})
			if o.Status != st || string(o.Body) != "abc" || o.Header.Get("X-Resp-Len") != "3" {
				vs = append(vs, Violation{"C14", "response-altered expect-continue", fmt.Sprintf("svc=%d (reqbuf=%v respbuf=%v): the target answered 100 Continue and then %d with 3 bytes; the client got %s body %q", si, s.reqBuf, s.respBuf, st, o.Summary(), firstN(o.Body, 40))})
			}
		}
	}
	return vs
}

// c14Head: a HEAD response declares the entity's length but has no body: nothing is buffered, so no limit can be
// exceeded; status and headers pass through whatever the declared length is.
func c14Head(w *World) []Violation {
	var vs []Violation
	for si, s := range c14Services {
		for _, n := range []int{0, 3, 9, 20, 100000} {
			w.reqSeq++
			o := w.Do(ReqSpec{ID: fmt.Sprintf("c14head-%d", w.reqSeq), Method: "HEAD", Host: s.host(si), Path: "/x", Header: [][2]string{{"X-Resp", fmt.Sprintf("len=%d;pat=one;kind=plain", n)}}})
			if o.Status != 200 || len(o.Body) != 0 || o.Header.Get("X-Resp-Len") != fmt.Sprint(n) || o.Header.Get("Content-Length") != fmt.Sprint(n) {
				vs = append(vs, Violation{"C14", "head-response-altered", fmt.Sprintf("svc=%d (respbuf=%v Lresp=%d) HEAD for an entity of %d bytes: %s, Content-Length %q, X-Resp-Len %q, body %d bytes", si, s.respBuf, s.Lresp, n, o.Summary(), o.Header.Get("Content-Length"), o.Header.Get("X-Resp-Len"), len(o.Body))})
			}
		}
	}
	if f := spillFiles(w); len(f) > 0 {
		vs = append(vs, Violation{"C14", "spill-file-left-behind kind=head", fmt.Sprint(f)})
	}
	return vs
}

func c14Level2(c c14in) func(w *World) []Violation {
	return func(w *World) []Violation {
		var vs []Violation
		add := func(sig, d string) { vs = append(vs, Violation{"C14", sig, c.name() + ": " + d}) }
		s := c14Services[c.svc]
		body := make([]byte, c.reqLen)
		for i := range body {
			body[i] = byte('A' + i%26)
		}
		marker := fmt.Sprintf("c14-%d", w.reqSeq+1)
		spec := ReqSpec{ID: marker, Method: "POST", Host: s.host(c.svc), Path: "/x",
			Header: [][2]string{{"X-Resp", fmt.Sprintf("len=%d;pat=%s;kind=%s", c.respLen, c.respPat, c.kind)}}}
		if c.kind == "upgrade" {
			spec.Method, spec.Upgrade, spec.Plan = "GET", true, "upgrade"
			spec.Header = nil
		}
		switch c.reqPat {
		case "one":
			spec.BodyChunks = [][]byte{body}
		case "bytes":
			for i := range body {
				spec.BodyChunks = append(spec.BodyChunks, body[i:i+1])
			}
		case "split":
			k := int(s.M)
			if k > len(body) {
				k = len(body)
			}
			spec.BodyChunks = [][]byte{body[:k], body[k:]}
		}
		if len(body) == 0 {
			spec.BodyChunks = nil
			spec.Body = []byte{}
		}
		spec.BodyGap = 20 * time.Millisecond
		if c.te && len(body) > 0 {
			spec.Chunked = true
		}
		if c.kind == "upgrade" {
			spec.BodyChunks, spec.Body = nil, nil
		}
		if c.kind == "abort-upload" {
			spec.BodyFailAfter = 1
		}
		if c.kind == "abort-wait" {
			spec.Plan = "hang"
			spec.CancelAfter = 500 * time.Millisecond
			spec.Header = nil
		}
		t0 := w.Now()
		var o *ReqObs
		if c.kind == "upgrade" {
			// an upgraded request occupies its handler until the connection ends
			var res *ReqObs
			vsched.GoTagged("client", func() { res = w.Do(spec) })
			time.Sleep(50 * time.Millisecond)
			w.mu.Lock()
			for _, r := range w.Reqs {
				if r.ID == marker {
					o = r
				}
			}
			w.mu.Unlock()
			if o == nil || !o.Hijacked || !bytes.Contains(o.Body, []byte("hello")) {
				add("upgrade-not-passed-through", fmt.Sprintf("%+v", o))
			}
			w.Net.CloseConnsOf(fmt.Sprintf("bt%d:80", c.svc))
			time.Sleep(20 * time.Millisecond)
			if res == nil {
				add("upgraded-request-did-not-end-when-the-target-closed", "")
			}
			if f := spillFiles(w); len(f) > 0 {
				add("spill-file-left-behind kind="+c.kind, fmt.Sprint(f))
			}
			return vs
		}
		o = w.Do(spec)
		lastChunkAt := t0
		if n := len(spec.BodyChunks); n > 1 {
			lastChunkAt = t0 + time.Duration(n-1)*spec.BodyGap
		}
		var ev, respEv *memnet.Event
		evs := w.Net.Events()
		for i := len(evs) - 1; i >= 0 && i >= len(evs)-600; i-- {
			if evs[i].ReqID == marker && evs[i].Kind == "req" && ev == nil {
				ev = &evs[i]
			}
			if evs[i].ReqID == marker && evs[i].Kind == "resp" && respEv == nil {
				respEv = &evs[i]
			}
		}
		// spill files are gone whatever happened
		if f := spillFiles(w); len(f) > 0 {
			var ops []string
			w.mu.Lock()
			for _, e := range w.FileLog[max(0, len(w.FileLog)-8):] {
				ops = append(ops, fmt.Sprintf("%s(%s after=%v err=%v)", e.Op, shortPath(e.Path), e.After, e.Err))
			}
			w.mu.Unlock()
			add("spill-file-left-behind kind="+c.kind, fmt.Sprint(f, " file ops: ", ops))
			for _, x := range f {
				os.Remove(w.Dir + "/tmp/" + x)
			}
		}
		switch c.kind {
		case "abort-upload", "abort-wait":
			return vs
		}
		reqOver := s.reqBuf && s.Lreq > 0 && int64(c.reqLen) > s.Lreq
		if reqOver {
			if o.Status != 413 {
				add("oversized-request-not-413", o.Summary())
			}
			if ev != nil {
				add("oversized-request-reached-target", fmt.Sprintf("target got %d bytes", len(ev.Body)))
			}
			return vs
		}
		if ev == nil {
			add("request-did-not-reach-target", o.Summary())
			return vs
		}
		if !bytes.Equal(ev.Body, body) {
			add("request-body-altered", fmt.Sprintf("target got %q, client sent %q", firstN(ev.Body, 40), firstN(body, 40)))
		}
		if s.reqBuf && ev.FirstByteAt < lastChunkAt {
			add("target-contacted-before-body-complete", fmt.Sprintf("first byte at target %v, last client chunk %v", ev.FirstByteAt, lastChunkAt))
		}
		if c.kind == "sse" {
			if o.Status != 200 || !strings.Contains(string(o.Body), "data: three") {
				add("event-stream-broken", o.Summary()+" "+firstN(o.Body, 60))
			}
			// each event must be flushed to the client when the target wrote it (0, +300ms, +600ms)
			var base time.Duration = -1
			seen := map[time.Duration]bool{}
			for _, f := range o.Flushes {
				if base < 0 {
					base = f.At
				}
				seen[f.At-base] = true
			}
			if !(seen[0] && seen[300*time.Millisecond] && seen[600*time.Millisecond]) {
				add("event-stream-buffered", fmt.Sprintf("flushes at %v", o.Flushes))
			}
			return vs
		}
		if c.kind == "cut" {
			if s.respBuf && o.Status == 200 && !o.Aborted {
				add("truncated-response-presented-as-complete", o.Summary())
			}
			return vs
		}
		respOver := s.respBuf && s.Lresp > 0 && int64(c.respLen) > s.Lresp
		if respOver {
			if o.Status != 500 {
				add("oversized-response-not-500", o.Summary())
			}
			if bytes.Contains(o.Body, []byte("abcd")) || (c.respLen > 0 && bytes.HasPrefix(o.Body, []byte("a")) && len(o.Body) == c.respLen) {
				add("oversized-response-body-leaked", firstN(o.Body, 40))
			}
			return vs
		}
		want := make([]byte, c.respLen)
		for i := range want {
			want[i] = byte('a' + i%26)
		}
		if o.Status != 200 || !bytes.Equal(o.Body, want) {
			add("response-altered", fmt.Sprintf("%s body %q want %q", o.Summary(), firstN(o.Body, 40), firstN(want, 40)))
		}
		if o.Header.Get("X-Resp-Len") != fmt.Sprint(c.respLen) {
			add("response-header-lost", fmt.Sprint(o.Header))
		}
		if s.respBuf && respEv != nil && o.HeaderAt < respEv.At {
			add("response-forwarded-before-complete", fmt.Sprintf("client saw the header at %v, target finished at %v", o.HeaderAt, respEv.At))
		}
		return vs
	}
}

func c14Cases(tier string) []ECase {
	var cases []ECase
	// level 1
	maxN := 7
	if tier == "thorough" {
		maxN = 9
	}
	for _, M := range []int64{0, 1, 2, 3, 5} {
		seenL := map[int64]bool{}
		for _, L := range []int64{0, M - 1, M, M + 1, 2*M + 1} {
			if L < 0 || seenL[L] {
				continue
			}
			seenL[L] = true
			top := int(L) + 2
			if L == 0 || top > maxN {
				top = maxN
			}
			for n := 0; n <= top; n++ {
				for _, comp := range compositions(n) {
					for _, rc := range []int{1, 2, 0} {
						if rc != 0 && len(comp) > 4 && tier == "quick" {
							continue
						}
						comp, rc := comp, rc
						cases = append(cases, ECase{Name: fmt.Sprintf("L1 M=%d L=%d chunks=%v read=%d", M, L, comp, rc), Class: fmt.Sprintf("L1 M=%d L=%d n=%d", M, L, n), Run: c14Level1(M, L, comp, rc)})
					}
				}
			}
		}
	}
	// level 2
	for si, s := range c14Services {
		lens := map[int]bool{0: true, int(s.M): true, int(s.M) + 1: true}
		for _, l := range []int64{s.Lreq, s.Lresp} {
			if l > 0 {
				lens[int(l)] = true
				lens[int(l)+1] = true
				lens[int(l)+5] = true
			}
		}
		lens[9] = true
		var ll []int
		for l := range lens {
			ll = append(ll, l)
		}
		sort.Ints(ll)
		for _, rl := range ll {
			for _, rp := range []string{"one", "bytes", "split"} {
				for _, pl := range ll {
					for _, pp := range []string{"one", "bytes", "split"} {
						if tier == "quick" && rp != "one" && pp != "one" {
							continue
						}
						in := c14in{svc: si, reqLen: rl, reqPat: rp, respLen: pl, respPat: pp, kind: "plain"}
						cases = append(cases, ECase{Name: "L2 " + in.name(), Class: fmt.Sprintf("L2 svc=%d plain", si), Run: c14Level2(in)})
					}
				}
				if s.reqBuf && rl > 0 {
					// the same request bodies without a declared length
					in := c14in{svc: si, reqLen: rl, reqPat: rp, respLen: 0, respPat: "one", kind: "plain", te: true}
					cases = append(cases, ECase{Name: "L2 " + in.name(), Class: fmt.Sprintf("L2 svc=%d chunked-request", si), Run: c14Level2(in)})
				}
				if s.respBuf && s.Lresp > 0 && rp == "one" && rl == 0 {
					// a piece that takes the body over the limit followed by a smaller one that would fit again,
					// with the first piece filling the memory buffer exactly or spilling
					for _, x := range []int{int(s.M), int(s.M) + 1} {
						if x < 1 {
							x = 1
						}
						L, y := int(s.Lresp), 2
						if x+y > L {
							continue
						}
						in := c14in{svc: si, reqLen: 0, reqPat: "one", respLen: x + L + y, respPat: fmt.Sprintf("at:%d,%d", x, x+L), kind: "plain"}
						cases = append(cases, ECase{Name: "L2 " + in.name(), Class: fmt.Sprintf("L2 svc=%d overflow-then-fit", si), Run: c14Level2(in)})
					}
				}
				if s.reqBuf && rl > 2 && (s.Lreq == 0 || int64(rl) <= s.Lreq) {
					in := c14in{svc: si, reqLen: rl, reqPat: rp, respLen: 0, respPat: "one", kind: "early-answer"}
					cases = append(cases, ECase{Name: "L2 " + in.name(), Class: fmt.Sprintf("L2 svc=%d early-answer", si), Run: c14EarlyAnswer(in)})
				}
				for _, kind := range []string{"sse", "upgrade", "cut", "abort-upload", "abort-wait"} {
					in := c14in{svc: si, reqLen: rl, reqPat: rp, respLen: 9, respPat: "one", kind: kind}
					cases = append(cases, ECase{Name: "L2 " + in.name(), Class: fmt.Sprintf("L2 svc=%d %s", si, kind), Run: c14Level2(in)})
				}
			}
		}
	}
	for si, s := range c14Services {
		if s.respBuf && (s.Lresp == 0 || s.Lresp >= 8) {
			cases = append(cases, ECase{Name: fmt.Sprintf("L2 svc=%d overlapping buffered responses after an event stream", si), Class: "L2 after-event-stream", Run: c14AfterEventStream(si)})
		}
	}
	for _, cmd := range []string{"pause", "stop", "redeploy"} {
		for _, k := range []int{1, 2, 4} {
			cases = append(cases, ECase{Name: fmt.Sprintf("L2 %s draining the target after %d of 5 body pieces", cmd, k), Class: "L2 drain-during-upload " + cmd, Run: c14DrainDuringUpload(cmd, k)})
		}
	}
	cases = append(cases, ECase{Name: "L2 requests with Expect: 100-continue", Class: "L2 expect-continue", Run: c14ExpectContinue})
	cases = append(cases, ECase{Name: "L2 HEAD requests for entities on both sides of the response limit", Class: "L2 head", Run: c14Head})
	cases = append(cases, ECase{Name: "L2 200kB body in memory, target answers early, then two more requests", Class: "L2 early-answer big", Run: c14EarlyAnswerBig})
	// stable order
	return cases
}

func checkC14(t *testing.T, job *Job, res *Result) {
	tier := job.Tier
	if job.Replay != nil {
		tier = job.Replay.Tier
	}
	res.Rule = "level 1: Buffer directly: memory limit M in {0,1,2,3,5} x total limit L in {0,M-1,M,M+1,2M+1} x body length 0..L+2 (<=7 quick, <=9 thorough) x EVERY composition of the body into write chunks x read-back chunking {1,2,all}; level 2: through the handler chain: request/response buffering on/off x (M,Lreq,Lresp) x body lengths {0,M,M+1,L,L+1,L+5,9} x chunk patterns {one, bytewise, M|rest, piece over the limit followed by a piece that fits again} with virtual gaps x request bodies with and without a declared length x endings {success, 413, 500, target cut mid-body, target answering before it has read the body (followed by another request), client abort mid-upload, client abort while waiting, the target drained by pause / stop / redeploy while the body is still arriving} x {plain, event stream with timed events, upgrade}; oracle: accepted/overflow decisions, memory bound, spill presence, exact bytes, timing on the virtual clock, no spill file left"
	res.Bounds = "see rule"
	runE(t, job, res, &ESpec{Prop: "C14", Setup: c14Setup, Cases: c14Cases(tier), Batch: 300})
}
