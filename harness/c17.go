//go:build verif

package server

import (
	"errors"
	"fmt"
	"strings"
	"testing"
	"time"

	"github.com/basecamp/kamal-proxy/internal/verif/memnet"
	"github.com/basecamp/kamal-proxy/internal/verif/vsched"
	"github.com/basecamp/kamal-proxy/internal/verif/vsync"
)

func init() { checks["C17"] = checkC17 }

type timeouts struct{ T, D, I, P time.Duration } // deploy, drain, probe interval, probe timeout

var c17Timeouts = []timeouts{
	{vT, vD, vI, vProbeTO},
	{1300 * time.Millisecond, 4700 * time.Millisecond, vI, vProbeTO},
	{2900 * time.Millisecond, 1700 * time.Millisecond, 300 * time.Millisecond, vProbeTO},
}

// firstHealthy simulates one probe loop (reference ticker simulator): first
// probe at once, then at ticks; a tick that fires while a probe is running is
// buffered (one slot). Returns the virtual offset at which the first 2xx
// answer is processed.
func firstHealthy(steps []memnet.ProbeStep, to timeouts, limit time.Duration) (time.Duration, bool) {
	start := time.Duration(0)
	lastRecv := time.Duration(0)
	for k := 0; ; k++ {
		i := k
		if i >= len(steps) {
			i = len(steps) - 1
		}
		st := steps[i]
		var dur time.Duration
		ok := false
		switch st.Kind {
		case "refuse":
			dur = 0
		case "hang":
			dur = to.P
		default:
			if st.Delay >= to.P {
				dur = to.P
			} else {
				dur = st.Delay
				ok = st.Kind == "ok"
			}
		}
		end := start + dur
		if ok {
			return end, true
		}
		if end > limit {
			return 0, false
		}
		// next probe: a tick in (lastRecv, end] is buffered -> immediately; else at the next tick
		firstTick := (lastRecv/to.I + 1) * to.I
		if firstTick <= end {
			start = end
		} else {
			start = firstTick
		}
		lastRecv = start
	}
}

type c17cfg struct {
	cmd      string // deploy | rollout | pause | stop | resume | remove | rollout-set | rollout-stop | list | deploy-conflict
	pre      string // absent | active | paused | stopped | rollout
	scripts  []pscript
	inflight []string
	to       int
	slowOld  bool   // the deployed target answers its probes slower than the probe interval
	during   string // "pause" | "stop": the measured command (on another service) is issued while this command is still draining s1
	flapOld  string // "down" | "up": the deployed target's probe result changes its state at the very tick at which the command starts
	twoOld   bool   // the service has two deployed targets (oa, ob); the in-flight requests are spread over them by the rotation
}

func (c c17cfg) String() string {
	var n []string
	for _, s := range c.scripts {
		n = append(n, s.name)
	}
	return fmt.Sprintf("cmd=%s pre=%s targets=[%s] inflight=[%s] timeouts=%d slowOld=%v", c.cmd, c.pre, strings.Join(n, ","), strings.Join(c.inflight, ","), c.to, c.slowOld) + map[bool]string{true: " twoOld", false: ""}[c.twoOld]
}

var c17InflightDelay = map[string]time.Duration{
	"early": 600 * time.Millisecond, "before": 0, "after": 0, "never": -1, "upgrade": -2,
}

func c17Configs(tier string) []c17cfg {
	var cfgs []c17cfg
	scripts := c01Scripts(tier)
	ok := scripts[0]
	tos := []int{0}
	if tier != "quick" {
		tos = []int{0, 1, 2}
	}
	for _, to := range tos {
		// deploys: health phase
		for _, s := range scripts {
			if strings.HasPrefix(s.name, "ok-at-T") && to != 0 {
				continue
			}
			cfgs = append(cfgs, c17cfg{cmd: "deploy", pre: "absent", scripts: []pscript{s}, to: to})
			cfgs = append(cfgs, c17cfg{cmd: "deploy", pre: "active", scripts: []pscript{ok, s}, inflight: []string{"early"}, to: to})
			if s.firstOK > 0 && s.firstOK < vT-time.Second && to == 0 {
				// one target healthy late but in time, the other just after the timeout
				for _, l := range scripts {
					if l.firstOK > vT {
						cfgs = append(cfgs, c17cfg{cmd: "deploy", pre: "absent", scripts: []pscript{s, l}, to: to})
						cfgs = append(cfgs, c17cfg{cmd: "deploy", pre: "absent", scripts: []pscript{l, s}, to: to})
					}
				}
			}
			if tier != "quick" {
				cfgs = append(cfgs, c17cfg{cmd: "rollout", pre: "rollout", scripts: []pscript{s, ok}, inflight: []string{"never"}, to: to})
				cfgs = append(cfgs, c17cfg{cmd: "rollout", pre: "active", scripts: []pscript{s}, to: to})
			}
		}
		// drain phase
		insets := [][]string{nil, {"early"}, {"before"}, {"after"}, {"never"}, {"upgrade"}, {"early", "never"}, {"upgrade", "before"}, {"early", "upgrade"}}
		for _, in := range insets {
			for _, cmd := range []string{"deploy", "pause", "stop"} {
				cfgs = append(cfgs, c17cfg{cmd: cmd, pre: "active", scripts: []pscript{ok}, inflight: in, to: to})
			}
			if tier != "quick" || len(in) == 1 {
				cfgs = append(cfgs, c17cfg{cmd: "rollout", pre: "rollout", scripts: []pscript{ok}, inflight: in, to: to})
				cfgs = append(cfgs, c17cfg{cmd: "pause", pre: "rollout", scripts: []pscript{ok}, inflight: in, to: to})
			}
		}
		// two deployed targets, each with a request in flight when the command drains them
		for _, in := range [][]string{{"never", "never"}, {"after", "never"}, {"early", "never", "never"}} {
			for _, cmd := range []string{"deploy", "pause", "stop"} {
				cfgs = append(cfgs, c17cfg{cmd: cmd, pre: "active", scripts: []pscript{ok}, inflight: in, to: to, twoOld: true})
			}
		}
		// commands that never wait
		for _, in := range [][]string{nil, {"never"}, {"upgrade"}} {
			for _, x := range [][2]string{{"resume", "paused"}, {"resume", "stopped"}, {"resume", "active"}, {"remove", "active"}, {"remove", "rollout"}, {"remove", "paused"},
				{"rollout-set", "rollout"}, {"rollout-stop", "rollout"}, {"list", "active"}, {"list", "paused"}, {"deploy-conflict", "active"}, {"stop", "paused"}, {"pause", "stopped"}, {"pause", "paused"}} {
				if tier == "quick" && len(in) > 0 && in[0] == "upgrade" {
					continue
				}
				cfgs = append(cfgs, c17cfg{cmd: x[0], pre: x[1], scripts: []pscript{ok}, inflight: in, to: to})
			}
		}
	}
	// probes slower than the probe interval (a tick is always buffered when a probe returns):
	// commands that stop probing must do so even when a probe is outstanding
	var slowS, neverSlow pscript
	for _, s := range scripts {
		if s.name == "1xslow-then-ok" {
			slowS = s
		}
		if s.name == "never-slow" {
			neverSlow = s
		}
	}
	for _, x := range [][2]string{{"remove", "active"}, {"deploy", "active"}, {"pause", "active"}, {"list", "active"}} {
		cfgs = append(cfgs, c17cfg{cmd: x[0], pre: x[1], scripts: []pscript{ok}, to: 2, slowOld: true})
	}
	// a state-changing probe result of the deployed target is being delivered while the command disposes of it
	for _, x := range [][2]string{{"remove", "active"}, {"deploy", "active"}, {"deploy-conflict", "active"}, {"rollout", "rollout"}, {"pause", "active"}} {
		for _, f := range []string{"down", "up"} {
			if tier == "quick" && f == "up" && x[0] != "remove" {
				continue
			}
			cfgs = append(cfgs, c17cfg{cmd: x[0], pre: x[1], scripts: []pscript{ok}, to: 0, flapOld: f})
		}
	}
	// several targets still unhealthy when the deploy timeout expires
	var nevers []pscript
	for _, sc := range scripts {
		if strings.HasPrefix(sc.name, "never-") {
			nevers = append(nevers, sc)
		}
	}
	if len(nevers) >= 2 {
		cfgs = append(cfgs, c17cfg{cmd: "deploy", pre: "absent", scripts: []pscript{nevers[0], nevers[1]}, to: 0})
		cfgs = append(cfgs, c17cfg{cmd: "deploy", pre: "active", scripts: []pscript{nevers[1], ok, nevers[0]}, to: 0})
		cfgs = append(cfgs, c17cfg{cmd: "rollout", pre: "rollout", scripts: []pscript{nevers[0], nevers[0]}, to: 0})
	}
	// a second command on the SAME service while a pause with twice the drain timeout is still draining: it is bound by its
	// own timeouts, not by the first command's (return time not compared with the reference, only the bound)
	for _, x := range []string{"stop", "pause", "deploy"} {
		cfgs = append(cfgs, c17cfg{cmd: x, pre: "active", scripts: []pscript{ok}, inflight: []string{"never"}, to: 0, during: "pause-long"})
	}
	// commands on another service (and list) while a pause/stop of s1 is waiting out its drain timeout
	for _, d := range []string{"pause", "stop"} {
		for _, x := range []string{"remove-other", "deploy-other", "list", "deploy-new"} {
			cfgs = append(cfgs, c17cfg{cmd: x, pre: "active", scripts: []pscript{ok}, inflight: []string{"never"}, to: 0, during: d})
		}
	}
	cfgs = append(cfgs, c17cfg{cmd: "deploy", pre: "absent", scripts: []pscript{neverSlow}, to: 2})
	cfgs = append(cfgs, c17cfg{cmd: "deploy", pre: "active", scripts: []pscript{ok, neverSlow}, to: 2})
	cfgs = append(cfgs, c17cfg{cmd: "rollout", pre: "active", scripts: []pscript{slowS, neverSlow}, to: 2})
	return cfgs
}

func c17Scenario(c c17cfg) *Scenario {
	sc := &Scenario{Name: "C17 " + c.String(), Horizon: 90 * time.Second}
	if c.flapOld != "" {
		sc.Bounds = &Bounds{D: 2, S: 0}
	}
	to := c17Timeouts[c.to]
	const host = "a.example.com"
	var newNames []string
	for i := range c.scripts {
		newNames = append(newNames, fmt.Sprintf("n%c:80", 'a'+i))
	}
	args := func(svc string, targets []string, hosts []string) DeployArgs {
		a := deployArgs(svc, targets, hosts, nil)
		a.DeployTimeout, a.DrainTimeout = to.T, to.D
		a.TargetOptions.HealthCheckConfig.Interval = to.I
		a.TargetOptions.HealthCheckConfig.Timeout = to.P
		a.TargetOptions.ResponseTimeout = 11 * time.Second
		return a
	}
	type sent struct {
		kind      string
		at        time.Duration
		dur       time.Duration // -1 never, -2 upgrade
		id        string
		onRollout bool
	}
	var sents []sent
	var cmdObs *CmdObs
	var settleEnd time.Duration
	sc.Run = func(w *World) {
		sents = nil
		cmdObs = nil
		for i, s := range c.scripts {
			w.AddTarget(newNames[i], s.steps...)
		}
		t0 := w.Now()
		if c.slowOld {
			w.AddTarget("oa:80", pOK(), pSlow())
		} else if c.flapOld == "down" {
			w.AddTarget("oa:80", pOK(), pOK(), pRefuse(), pOK())
			w.AddTarget("ra:80", pOK(), pOK(), pRefuse(), pOK())
		} else if c.flapOld == "up" {
			w.AddTarget("oa:80", pOK(), pRefuse(), pOK())
			w.AddTarget("ra:80", pOK(), pRefuse(), pOK())
		} else {
			w.AddTarget("oa:80")
		}
		if c.flapOld == "" {
			w.AddTarget("ra:80")
		}
		w.AddTarget("xa:80")
		if c.pre != "absent" {
			olds := []string{"oa:80"}
			if c.twoOld {
				w.AddTarget("ob:80")
				olds = append(olds, "ob:80")
			}
			if r := w.Deploy(args("s1", olds, []string{host})); r.Err != nil {
				w.Note("setup: %v", r.Err)
				return
			}
		}
		if c.pre == "rollout" {
			rd := RolloutDeployArgs{Service: "s1", TargetURLs: []string{"ra:80"}, DeployTimeout: to.T, DrainTimeout: to.D}
			var reply bool
			if err := w.Cmd.RolloutDeploy(rd, &reply); err != nil {
				w.Note("setup: %v", err)
				return
			}
			w.RolloutSet("s1", 0, []string{"v"})
		}
		if c.cmd == "deploy-conflict" || c.cmd == "remove-other" || c.cmd == "deploy-other" {
			if r := w.Deploy(args("s2", []string{"xa:80"}, []string{"b.example.com"})); r.Err != nil {
				w.Note("setup: %v", r.Err)
				return
			}
		}
		time.Sleep(to.I/2 + 50*time.Millisecond)
		var wg vsync.WaitGroup
		for i, k := range c.inflight {
			spec := ReqSpec{ID: fmt.Sprintf("in%d-%s", i, k), Host: host}
			s := sent{kind: k, id: spec.ID}
			switch k {
			case "early":
				s.dur = 600 * time.Millisecond
			case "before":
				s.dur = to.D
			case "after":
				s.dur = to.D + 200*time.Millisecond
			case "never":
				s.dur = -1
			case "upgrade":
				s.dur = -2
			}
			switch {
			case s.dur == -1:
				spec.Plan = "hang"
			case s.dur == -2:
				spec.Plan = "upgrade"
				spec.Upgrade = true
			default:
				spec.Plan = "delay=" + s.dur.String()
			}
			if c.pre == "rollout" && i%2 == 0 {
				spec.Cookie = "kamal-rollout=v"
				s.onRollout = true
			}
			s.at = w.Now()
			sents = append(sents, s)
			wg.Add(1)
			vsched.GoTagged("client", func() {
				defer wg.Done()
				w.Do(spec)
			})
		}
		time.Sleep(100 * time.Millisecond)
		switch c.pre {
		case "paused":
			w.Pause("s1", to.D, 20*time.Second)
		case "stopped":
			w.Stop("s1", to.D, "down")
		}
		if c.pre == "paused" || c.pre == "stopped" {
			// the setup command drained the in-flight requests; nothing is in flight any more
			for i := range sents {
				sents[i].dur = 0
				sents[i].kind = "gone"
			}
		}
		w.S.SetWindow(true)
		if c.during != "" {
			vsched.GoTagged("cmd", func() {
				if c.during == "pause" {
					w.Pause("s1", to.D, 20*time.Second)
				} else if c.during == "pause-long" {
					w.Pause("s1", 2*to.D, 20*time.Second)
				} else {
					w.Stop("s1", to.D, "down")
				}
			})
			time.Sleep(300 * time.Millisecond)
		}
		if c.flapOld != "" {
			// start the command at the very instant of the deployed targets' third probe (whose result flips their state)
			time.Sleep(t0 + 2*to.I - w.Now())
		}
		var cwg vsync.WaitGroup
		cwg.Add(1)
		vsched.GoTagged("cmd", func() {
			defer cwg.Done()
			switch c.cmd {
			case "deploy":
				cmdObs = w.Deploy(args("s1", newNames, []string{host}))
			case "deploy-conflict":
				cmdObs = w.Deploy(args("s1", newNames, []string{host, "b.example.com"}))
			case "rollout":
				rd := RolloutDeployArgs{Service: "s1", TargetURLs: newNames, DeployTimeout: to.T, DrainTimeout: to.D}
				cmdObs = w.runCmd("rollout-deploy", fmt.Sprint(newNames), func() error { var r bool; return w.Cmd.RolloutDeploy(rd, &r) })
			case "pause":
				cmdObs = w.Pause("s1", to.D, 20*time.Second)
			case "stop":
				cmdObs = w.Stop("s1", to.D, "down")
			case "resume":
				cmdObs = w.Resume("s1")
			case "remove":
				cmdObs = w.Remove("s1")
			case "remove-other":
				cmdObs = w.Remove("s2")
			case "deploy-other":
				cmdObs = w.Deploy(args("s2", newNames, []string{"b.example.com"}))
			case "deploy-new":
				cmdObs = w.Deploy(args("s3", newNames, []string{"c.example.com"}))
			case "rollout-set":
				cmdObs = w.RolloutSet("s1", 50, nil)
			case "rollout-stop":
				cmdObs = w.RolloutStop("s1")
			case "list":
				_, cmdObs = w.List()
			}
		})
		// wait for the command only; in-flight requests may go on
		cwg.Wait()
		w.S.SetWindow(false)
		w.Net.Mark("settle-start", "")
		time.Sleep(4*to.I + 100*time.Millisecond)
		settleEnd = w.Now()
		w.Net.Mark("settle-end", "")
		_ = wg
	}
	sc.Check = func(w *World) []Violation {
		var vs []Violation
		for _, n := range w.Notes {
			vs = append(vs, Violation{"C17", "setup", n})
		}
		cmd := cmdObs
		if cmd == nil || !cmd.Done || len(vs) > 0 {
			return vs
		}
		start := cmd.Start
		// expected health phase
		expect := start
		wantErr := false
		replaced := false
		switch c.cmd {
		case "deploy", "rollout", "deploy-conflict", "deploy-other", "deploy-new":
			worst := time.Duration(0)
			for _, s := range c.scripts {
				th, ok := firstHealthy(s.steps, to, to.T+to.P)
				if !ok || th >= to.T {
					wantErr = true
				} else if th > worst {
					worst = th
				}
			}
			if wantErr {
				expect = start + to.T
			} else {
				expect = start + worst
				replaced = (c.cmd == "deploy" && c.pre != "absent") || (c.cmd == "rollout" && c.pre == "rollout")
				if c.cmd == "deploy-conflict" {
					wantErr = true
				}
			}
		}
		drainFrom := func(t time.Duration, rolloutOnly, activeOnly bool) time.Duration {
			longest := time.Duration(0)
			for _, s := range sents {
				if rolloutOnly && !s.onRollout || activeOnly && s.onRollout {
					continue
				}
				var rem time.Duration
				switch {
				case s.kind == "gone" || s.dur == -2:
					rem = 0
				case s.dur == -1:
					rem = to.D
				default:
					rem = s.at + s.dur - t
				}
				if rem > to.D {
					rem = to.D
				}
				if rem > longest {
					longest = rem
				}
			}
			return t + longest
		}
		switch {
		case replaced && c.cmd == "deploy":
			expect = drainFrom(expect, false, c.pre == "rollout")
		case replaced && c.cmd == "rollout":
			expect = drainFrom(expect, true, false)
		case c.cmd == "pause" || c.cmd == "stop":
			if c.pre != "paused" && c.pre != "stopped" {
				expect = drainFrom(start, false, false)
			}
		}
		if wantErr != (cmd.Err != nil) && c.cmd != "resume" && c.cmd != "list" {
			vs = append(vs, Violation{"C17", "unexpected-result", fmt.Sprintf("%s returned %v, reference expects error=%v", cmd.Name, cmd.Err, wantErr)})
		}
		if wantErr && cmd.Err != nil && c.cmd != "deploy-conflict" && !errors.Is(cmd.Err, ErrorTargetFailedToBecomeHealthy) {
			vs = append(vs, Violation{"C17", "unexpected-error-class", cmd.Err.Error()})
		}
		if cmd.End != expect && c.during != "pause-long" {
			sig := "returned-late"
			if cmd.End < expect {
				sig = "returned-early"
			}
			vs = append(vs, Violation{"C17", fmt.Sprintf("%s %s", c.cmd, sig), fmt.Sprintf("%s started %v returned %v; reference expects %v (T=%v D=%v I=%v)", cmd.Name, start, cmd.End, expect, to.T, to.D, to.I)})
		}
		bound := start
		switch c.cmd {
		case "deploy", "rollout", "deploy-conflict", "deploy-other", "deploy-new":
			bound = start + to.T + to.D
		case "pause", "stop":
			bound = start + to.D
		}
		if cmd.End > bound {
			vs = append(vs, Violation{"C17", c.cmd + " exceeded-timeout-bound", fmt.Sprintf("%s took %v, bound %v", cmd.Name, cmd.End-start, bound-start)})
		}
		// probes after return
		silent := map[string]bool{}
		switch {
		case c.cmd == "remove":
			silent["oa:80"] = true
			silent["ob:80"] = true
			if c.pre == "rollout" {
				silent["ra:80"] = true
			}
		case (c.cmd == "deploy" || c.cmd == "rollout" || c.cmd == "deploy-conflict") && cmd.Err != nil:
			for _, n := range newNames {
				silent[n] = true
			}
		case c.cmd == "remove-other" || (c.cmd == "deploy-other" && cmd.Err == nil):
			silent["xa:80"] = true
		case c.cmd == "deploy" && replaced:
			silent["oa:80"] = true
			silent["ob:80"] = true
		case c.cmd == "rollout" && replaced:
			silent["ra:80"] = true
		}
		evs := w.Net.Events()
		late := map[string]int{}
		for _, e := range evs {
			if e.Seq > cmd.EndSeq && (e.Kind == "probe" || e.Kind == "probe-refused") && silent[e.Target] {
				late[e.Target]++
			}
		}
		if len(late) > 0 {
			class := c.cmd
			if cmd.Err != nil {
				class += " failed"
				if errors.Is(cmd.Err, ErrorHostInUse) {
					class += " host-conflict"
				}
			}
			vs = append(vs, Violation{"C17", "probes-after-return " + class, fmt.Sprintf("targets %v received health probes after %s returned (%v) during the %v settle window", late, cmd.Name, cmd.Err, settleEnd-cmd.End)})
		}
		// the others keep their cadence: at least 3 probes in the 4-interval settle window
		for _, n := range []string{"oa:80", "ob:80", "ra:80", "xa:80", "na:80", "nb:80"} {
			if silent[n] || w.Net.Target(n) == nil {
				continue
			}
			deployed := false
			cnt := 0
			for _, e := range evs {
				if e.Target == n && (e.Kind == "probe" || e.Kind == "probe-refused") {
					deployed = true
					if e.Seq > cmd.EndSeq {
						cnt++
					}
				}
			}
			stillThere := deployed
			if c.cmd == "remove" && (n == "oa:80" || n == "ob:80" || n == "ra:80") {
				stillThere = false
			}
			// one probe per interval, or per probe duration when probes are slower than the interval
			per := to.I
			if c.slowOld && n == "oa:80" && to.P > per {
				per = to.P
			}
			minProbes := int((4*to.I+100*time.Millisecond)/per) - 1
			if minProbes < 1 {
				minProbes = 1
			}
			if stillThere && cnt < minProbes {
				vs = append(vs, Violation{"C17", "probing-stopped-for-live-target", fmt.Sprintf("%s got only %d probes in the settle window after %s", n, cnt, cmd.Name)})
			}
		}
		return vs
	}
	return sc
}

// c17RacingDeploys: two deploys of different services that claim the same host overlap while both wait for their
// targets (healthy after one probe interval). One of them is rejected when it tries to install; both return within
// their bounds, and the rejected one's targets receive no probe after it returned.
func c17RacingDeploys(sameInstant bool) *Scenario {
	sc := &Scenario{Name: fmt.Sprintf("C17 racing deploys of two services onto one host, sameInstant=%v", sameInstant), Horizon: 90 * time.Second, Bounds: &Bounds{D: 2, S: 0}}
	var cmds [2]*CmdObs
	sc.Run = func(w *World) {
		cmds = [2]*CmdObs{}
		w.AddTarget("oa:80")
		w.AddTarget("pa:80", p500(), pOK())
		w.AddTarget("pb:80", p500(), pOK())
		if r := w.Deploy(deployArgs("s1", []string{"oa:80"}, []string{"a.example.com"}, nil)); r.Err != nil {
			w.Note("setup: %v", r.Err)
			return
		}
		time.Sleep(vI/2 + 50*time.Millisecond)
		var wg vsync.WaitGroup
		wg.Add(2)
		w.S.SetWindow(true)
		for i, tn := range []string{"pa:80", "pb:80"} {
			i, tn := i, tn
			vsched.GoTagged("cmd", func() {
				defer wg.Done()
				cmds[i] = w.Deploy(deployArgs(fmt.Sprintf("sx%d", i), []string{tn}, []string{"c.example.com"}, nil))
			})
			if !sameInstant {
				time.Sleep(300 * time.Millisecond)
			}
		}
		wg.Wait()
		w.S.SetWindow(false)
		w.Net.Mark("settle-start", "")
		time.Sleep(4*vI + 100*time.Millisecond)
	}
	sc.Check = func(w *World) []Violation {
		var vs []Violation
		for _, n := range w.Notes {
			vs = append(vs, Violation{"C17", "setup", n})
		}
		if len(vs) > 0 || cmds[0] == nil || cmds[1] == nil || !cmds[0].Done || !cmds[1].Done {
			return vs
		}
		okN := 0
		for i, c := range cmds {
			if c.Err == nil {
				okN++
			} else if !errors.Is(c.Err, ErrorHostInUse) {
				vs = append(vs, Violation{"C17", "unexpected-error-class", fmt.Sprintf("racing deploy %d: %v", i, c.Err)})
			}
			if c.End > c.Start+vT+vD {
				vs = append(vs, Violation{"C17", "deploy exceeded-timeout-bound", fmt.Sprintf("racing deploy %d took %v", i, c.End-c.Start)})
			}
		}
		if okN != 1 {
			vs = append(vs, Violation{"C17", "unexpected-result", fmt.Sprintf("two deploys claiming the same host: %d succeeded (%v / %v)", okN, cmds[0].Err, cmds[1].Err)})
			return vs
		}
		evs := w.Net.Events()
		for i, tn := range []string{"pa:80", "pb:80"} {
			cnt := 0
			for _, e := range evs {
				if e.Target == tn && e.Seq > cmds[i].EndSeq && (e.Kind == "probe" || e.Kind == "probe-refused") {
					cnt++
				}
			}
			if cmds[i].Err != nil && cnt > 0 {
				vs = append(vs, Violation{"C17", "probes-after-return deploy failed host-conflict racing", fmt.Sprintf("%s received %d health probes after the deploy naming it was rejected (%v)", tn, cnt, cmds[i].Err)})
			}
			if cmds[i].Err == nil && cnt < 3 {
				vs = append(vs, Violation{"C17", "probing-stopped-for-live-target", fmt.Sprintf("%s (deployed) got only %d probes in the settle window", tn, cnt)})
			}
		}
		return vs
	}
	return sc
}

// c17OverlappingRolloutDeploys: two rollout deploys of one service overlap - the second starts while the first is
// still waiting for its target, the first finishes first. Both return within their bounds; once both have returned
// exactly one of the two targets is in the rollout slot and keeps being probed, the replaced one receives no probe.
func c17OverlappingRolloutDeploys(gap time.Duration) *Scenario {
	sc := &Scenario{Name: fmt.Sprintf("C17 overlapping rollout deploys of one service, gap=%v", gap), Horizon: 90 * time.Second, Bounds: &Bounds{D: 2, S: 0}}
	var cmds [2]*CmdObs
	sc.Run = func(w *World) {
		cmds = [2]*CmdObs{}
		w.AddTarget("oa:80")
		w.AddTarget("pa:80", p500(), pOK())
		w.AddTarget("pb:80", p500(), p500(), pOK())
		if r := w.Deploy(deployArgs("s1", []string{"oa:80"}, []string{"a.example.com"}, nil)); r.Err != nil {
			w.Note("setup: %v", r.Err)
			return
		}
		time.Sleep(vI/2 + 50*time.Millisecond)
		var wg vsync.WaitGroup
		wg.Add(2)
		w.S.SetWindow(true)
		for i, tn := range []string{"pa:80", "pb:80"} {
			i, tn := i, tn
			vsched.GoTagged("cmd", func() {
				defer wg.Done()
				cmds[i] = w.RolloutDeploy("s1", []string{tn})
			})
			time.Sleep(gap)
		}
		wg.Wait()
		w.S.SetWindow(false)
		w.Net.Mark("settle-start", "")
		time.Sleep(4*vI + 100*time.Millisecond)
	}
	sc.Check = func(w *World) []Violation {
		var vs []Violation
		for _, n := range w.Notes {
			vs = append(vs, Violation{"C17", "setup", n})
		}
		if len(vs) > 0 || cmds[0] == nil || cmds[1] == nil || !cmds[0].Done || !cmds[1].Done {
			return vs
		}
		last := cmds[0].EndSeq
		for i, c := range cmds {
			if c.Err != nil {
				vs = append(vs, Violation{"C17", "unexpected-result", fmt.Sprintf("overlapping rollout deploy %d: %v", i, c.Err)})
			}
			if c.End > c.Start+vT+vD {
				vs = append(vs, Violation{"C17", "rollout exceeded-timeout-bound", fmt.Sprintf("overlapping rollout deploy %d took %v", i, c.End-c.Start)})
			}
			if c.EndSeq > last {
				last = c.EndSeq
			}
		}
		if len(vs) > 0 {
			return vs
		}
		cnt := map[string]int{}
		for _, e := range w.Net.Events() {
			if e.Seq > last && (e.Kind == "probe" || e.Kind == "probe-refused") {
				cnt[e.Target]++
			}
		}
		if cnt["pa:80"] > 0 && cnt["pb:80"] > 0 {
			vs = append(vs, Violation{"C17", "probes-after-return rollout overlapping", fmt.Sprintf("both rollout deploys returned successfully, one target replaced the other, yet both are still probed in the settle window: %v", cnt)})
		}
		if cnt["pa:80"] < 3 && cnt["pb:80"] < 3 {
			vs = append(vs, Violation{"C17", "probing-stopped-for-live-target", fmt.Sprintf("neither rollout target is probed after two successful rollout deploys: %v", cnt)})
		}
		if cnt["oa:80"] < 3 {
			vs = append(vs, Violation{"C17", "probing-stopped-for-live-target", fmt.Sprintf("oa:80 (active) got only %d probes in the settle window", cnt["oa:80"])})
		}
		return vs
	}
	return sc
}

// c17RemoveRacingWith: `remove s1` races with a deploy / rollout deploy of s1 whose new target is healthy at once.
// Whatever order the two take effect in, once both have returned every target that is still probed belongs to a
// service the proxy lists, and every target of a listed service is probed.
func c17RemoveRacingWith(other string) *Scenario {
	sc := &Scenario{Name: "C17 remove racing with " + other, Horizon: 90 * time.Second, Bounds: &Bounds{D: 2, S: 0}}
	var live string
	var probed map[string]int
	var cmds []*CmdObs
	sc.Run = func(w *World) {
		live, probed, cmds = "", map[string]int{}, nil
		w.AddTarget("oa:80")
		w.AddTarget("na:80")
		w.AddTarget("xa:80")
		w.Deploy(deployArgs("s1", []string{"oa:80"}, []string{"a.example.com"}, nil))
		w.Deploy(deployArgs("s2", []string{"xa:80"}, []string{"b.example.com"}, nil))
		time.Sleep(vI/2 + 50*time.Millisecond)
		var wg vsync.WaitGroup
		wg.Add(2)
		w.S.SetWindow(true)
		var c1, c2 *CmdObs
		vsched.GoTagged("cmd", func() { defer wg.Done(); c1 = w.Remove("s1") })
		vsched.GoTagged("cmd", func() {
			defer wg.Done()
			if other == "deploy" {
				c2 = w.Deploy(deployArgs("s1", []string{"na:80"}, []string{"a.example.com"}, nil))
			} else {
				c2 = w.RolloutDeploy("s1", []string{"na:80"})
			}
		})
		wg.Wait()
		w.S.SetWindow(false)
		cmds = []*CmdObs{c1, c2}
		from := w.Net.Mark("settle-start", "")
		time.Sleep(4*vI + 100*time.Millisecond)
		for _, e := range w.Net.Events() {
			if e.Seq > from && (e.Kind == "probe" || e.Kind == "probe-refused") {
				probed[e.Target]++
			}
		}
		live = routerSummary(w.Router)
	}
	sc.Check = func(w *World) []Violation {
		var vs []Violation
		for _, c := range cmds {
			if c == nil || !c.Done {
				return vs
			}
			if c.End > c.Start+vT+vD {
				vs = append(vs, Violation{"C17", c.Name + " exceeded-timeout-bound", fmt.Sprintf("%s took %v", c.Name, c.End-c.Start)})
			}
		}
		for _, t := range []string{"oa:80", "na:80", "xa:80"} {
			inService := strings.Contains(live, t)
			if probed[t] > 0 && !inService {
				vs = append(vs, Violation{"C17", "probes-after-return remove racing-with-" + other, fmt.Sprintf("%s was probed %d times in the settle window after `remove s1` (%v) and the %s (%v) returned, but no listed service uses it: %s", t, probed[t], cmds[0].Err, other, cmds[1].Err, live)})
			}
			// (only the unrelated service: what becomes of s1 when it is removed and deployed at the same time is not
			// C17's subject - see DESIGN.md 0.3, "removed service resurrected")
			if probed[t] < 3 && inService && t == "xa:80" {
				vs = append(vs, Violation{"C17", "probing-stopped-for-live-target", fmt.Sprintf("%s is in service (%s) but got %d probes in the settle window", t, live, probed[t])})
			}
		}
		return vs
	}
	return sc
}

func checkC17(t *testing.T, job *Job, res *Result) {
	tier := job.Tier
	if job.Replay != nil {
		tier = job.Replay.Tier
	}
	var scs []*Scenario
	for _, c := range c17Configs(tier) {
		scs = append(scs, c17Scenario(c))
	}
	scs = append(scs, c17RacingDeploys(false), c17RacingDeploys(true))
	scs = append(scs, c17RemoveRacingWith("deploy"), c17RemoveRacingWith("rollout-deploy"))
	scs = append(scs, c17OverlappingRolloutDeploys(300*time.Millisecond), c17OverlappingRolloutDeploys(0))
	b := Bounds{D: 1, S: 0}
	if tier == "thorough" {
		b = Bounds{D: 2, S: 0}
	}
	res.Rule = "configurations = command x pre-state x per-target probe scripts x in-flight sets x (deploy timeout, drain timeout, probe interval) triples; stall bound 0 so that elapsed virtual time is exact; oracle: return time EQUAL to a reference simulator (probe ticker, first 2xx, remaining in-flight time), stated upper bounds, zero probes to removed/replaced/rejected targets in a 4-interval settle window, live targets keep being probed; two deploys of different services racing for one host: exactly one is rejected, in time, and its targets are not probed afterwards; two rollout deploys of one service overlapping: one target replaces the other and only it is probed afterwards; two deployed targets each with a request in flight when drained"
	runS(t, job, res, "C17", withReversed(scs), b, 6000)
}
