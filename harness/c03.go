//go:build verif

package server

import (
	"fmt"
	"strings"
	"testing"
	"time"

	"github.com/basecamp/kamal-proxy/internal/verif/memnet"
	"github.com/basecamp/kamal-proxy/internal/verif/vsched"
	"github.com/basecamp/kamal-proxy/internal/verif/vsync"
)

func init() { checks["C03"] = checkC03 }

// kinds of in-flight requests, relative to the start of the command (which
// is 100ms after they were sent)
var c03Inflight = map[string]string{
	"early":      "delay=600ms",  // done at t_d + 0.5s
	"before":     "delay=2100ms", // done at t_d + D - 0.1s
	"after":      "delay=2300ms", // would be done at t_d + D + 0.1s
	"never":      "hang",
	"streaming":  "stream=2100ms", // status line and headers at once, the body complete at t_d + D - 0.1s
	"upgrade":    "upgrade",
	"upgrade-ka": "upgrade",             // the same with "Connection: keep-alive, Upgrade" (what browsers send)
	"lateup":     "delay=600ms;upgrade", // ordinary in-flight request when draining begins, upgraded at t_d + 0.5s
	"offer":      "delay=600ms",         // offers a protocol upgrade (Connection: Upgrade) that the target does not take; done at t_d + 0.5s
}

type c03cfg struct {
	cmd      string   // redeploy | pause | stop
	targets  int      // targets of the service
	rollout  bool     // rollout targets present (pause/stop)
	inflight []string // kinds
	late     []string // late clients: "quick" | "long"
	sick     bool     // the targets fail their probes after deployment: unhealthy (out of rotation) but with requests in flight
	rstopped bool     // rollout: `rollout stop` was issued after the in-flight requests reached the rollout target (its targets still belong to the service)
	shortTT  bool     // the service's target timeout (1s) is shorter than the drain timeout: it bounds the wait for response headers, not a drain
	held     bool     // rollout-redeploy only: the service is paused, two requests (one per group) are held, the command runs, then resume
	prefixes bool     // the service is bound to three path prefixes (/, /app, /app/v2) and the requests are spread over them
	prior    string   // "timeout" | "clean": the targets were drained before (a pause cutting off a request at its deadline / a pause with a request finishing early), then resumed
}

func (c c03cfg) String() string {
	return fmt.Sprintf("cmd=%s targets=%d rollout=%v inflight=[%s] late=[%s] sick=%v prior=%s", c.cmd, c.targets, c.rollout, strings.Join(c.inflight, ","), strings.Join(c.late, ","), c.sick, c.prior) + map[bool]string{true: " held=true"}[c.held] + map[bool]string{true: " target-timeout=1s"}[c.shortTT] + map[bool]string{true: " rollout-stopped"}[c.rstopped] + map[bool]string{true: " three-prefixes"}[c.prefixes]
}

func c03Configs(tier string) []c03cfg {
	if tier == "quick" {
		var cfgs []c03cfg
		for _, cmd := range []string{"redeploy", "pause", "stop"} {
			for _, in := range [][]string{nil, {"early"}, {"never"}, {"upgrade"}, {"after"}, {"before", "never"}, {"offer"}, {"lateup"}, {"upgrade-ka"}} {
				for _, l := range [][]string{{"quick"}, {"long"}} {
					if in == nil && l[0] == "quick" {
						continue
					}
					cfgs = append(cfgs, c03cfg{cmd: cmd, targets: 1, inflight: in, late: l})
				}
			}
			cfgs = append(cfgs, c03cfg{cmd: cmd, targets: 2, inflight: []string{"early", "upgrade"}, late: []string{"long"}})
			// requests still running at the deadline on several targets at once (round robin spreads them)
			cfgs = append(cfgs, c03cfg{cmd: cmd, targets: 2, inflight: []string{"never", "never"}})
			cfgs = append(cfgs, c03cfg{cmd: cmd, targets: 2, inflight: []string{"after", "never", "early"}})
		}
		for _, cmd := range []string{"redeploy", "pause", "stop"} {
			cfgs = append(cfgs, c03cfg{cmd: cmd, targets: 1, inflight: []string{"never", "upgrade"}, sick: true})
			cfgs = append(cfgs, c03cfg{cmd: cmd, targets: 2, inflight: []string{"early", "after"}, sick: true})
		}
		cfgs = append(cfgs, c03cfg{cmd: "pause", targets: 1, rollout: true, inflight: []string{"never", "upgrade"}, late: []string{"long"}})
		cfgs = append(cfgs, c03cfg{cmd: "stop", targets: 1, rollout: true, inflight: []string{"early", "after"}, late: []string{"long"}})
		for _, cmd := range []string{"redeploy", "pause", "stop"} {
			for _, pr := range []string{"timeout", "clean"} {
				cfgs = append(cfgs, c03cfg{cmd: cmd, targets: 1, inflight: []string{"early", "never"}, prior: pr})
				cfgs = append(cfgs, c03cfg{cmd: cmd, targets: 1, inflight: []string{"after"}, prior: pr})
			}
		}
		// a service bound to several path prefixes, requests on each of them
		for _, cmd := range []string{"redeploy", "pause", "stop"} {
			cfgs = append(cfgs, c03cfg{cmd: cmd, targets: 1, inflight: []string{"early", "never", "early"}, late: []string{"quick", "quick", "quick"}, prefixes: true})
		}
		cfgs = append(cfgs, c03RolloutRedeploy(tier)...)
		cfgs = append(cfgs, c03Streaming(tier)...)
		return cfgs
	}

	kinds := []string{"early", "before", "after", "never", "upgrade", "offer", "lateup", "upgrade-ka"}
	var sets [][]string
	sets = append(sets, nil)
	for _, k := range kinds {
		sets = append(sets, []string{k})
	}
	for i, a := range kinds {
		for j, b := range kinds {
			if j < i {
				continue
			}
			if tier == "quick" && !(a == "early" || b == "never" || a == b) {
				continue
			}
			sets = append(sets, []string{a, b})
		}
	}
	if tier != "quick" {
		sets = append(sets, []string{"early", "after", "upgrade"}, []string{"before", "never", "upgrade"}, []string{"early", "before", "after"})
	}
	lates := [][]string{nil, {"quick"}, {"long"}}
	if tier != "quick" {
		lates = append(lates, []string{"quick", "long"}, []string{"long", "long"})
	}
	var cfgs []c03cfg
	for _, cmd := range []string{"redeploy", "pause", "stop"} {
		for _, nt := range []int{1, 2} {
			for _, in := range sets {
				for _, l := range lates {
					if tier == "quick" && nt == 2 && (len(in) != 2 || len(l) == 0) {
						continue
					}
					cfgs = append(cfgs, c03cfg{cmd: cmd, targets: nt, inflight: in, late: l})
				}
			}
		}
	}
	for _, cmd := range []string{"redeploy", "pause", "stop"} {
		for _, in := range sets {
			if len(in) > 0 {
				cfgs = append(cfgs, c03cfg{cmd: cmd, targets: 1, inflight: in, sick: true})
			}
		}
	}
	for _, cmd := range []string{"redeploy", "pause", "stop"} {
		for _, pr := range []string{"timeout", "clean"} {
			for _, in := range [][]string{{"early"}, {"never"}, {"after"}, {"before", "never"}, {"early", "upgrade"}, {"lateup"}} {
				cfgs = append(cfgs, c03cfg{cmd: cmd, targets: 1, inflight: in, prior: pr})
			}
		}
	}
	cfgs = append(cfgs, c03RolloutRedeploy(tier)...)
	cfgs = append(cfgs, c03Streaming(tier)...)
	// rollout targets present (pause/stop drain both sets)
	for _, cmd := range []string{"pause", "stop"} {
		for _, in := range [][]string{{"early"}, {"never", "upgrade"}, {"after", "before"}} {
			cfgs = append(cfgs, c03cfg{cmd: cmd, targets: 1, rollout: true, inflight: in, late: []string{"long"}})
		}
	}
	return cfgs
}

// c03RolloutRedeploy: the command is a rollout deploy replacing the rollout target (the service object stays in place,
// only the rollout set is swapped and the replaced rollout target drained), with requests of the rollout group in
// flight or arriving late, or with requests of both groups held by a pause that is lifted after the command returned.
func c03RolloutRedeploy(tier string) []c03cfg {
	cfgs := []c03cfg{
		{cmd: "pause", targets: 1, rollout: true, rstopped: true, inflight: []string{"never", "after"}, late: []string{"quick"}},
		{cmd: "stop", targets: 1, rollout: true, rstopped: true, inflight: []string{"early", "upgrade"}, late: []string{"quick"}},
		{cmd: "rollout-redeploy", targets: 1, rollout: true, inflight: []string{"early", "never"}, late: []string{"long"}},
		{cmd: "rollout-redeploy", targets: 1, rollout: true, inflight: []string{"upgrade", "after"}, late: []string{"quick", "quick"}},
		{cmd: "rollout-redeploy", targets: 1, rollout: true, held: true},
		{cmd: "rollout-redeploy", targets: 1, rollout: true, held: true, late: []string{"quick", "quick"}},
	}
	if tier != "quick" {
		for _, in := range [][]string{{"before"}, {"lateup"}, {"offer", "never"}, {"early", "after", "upgrade"}} {
			cfgs = append(cfgs, c03cfg{cmd: "rollout-redeploy", targets: 1, rollout: true, inflight: in, late: []string{"long", "quick"}})
		}
		cfgs = append(cfgs, c03cfg{cmd: "rollout-redeploy", targets: 2, rollout: true, held: true, late: []string{"long"}})
	}
	return cfgs
}

// c03Streaming: an in-flight response whose headers have arrived and whose body completes just before the drain
// deadline, with the service's target timeout longer and shorter than the drain timeout.
func c03Streaming(tier string) []c03cfg {
	var cfgs []c03cfg
	for _, cmd := range []string{"redeploy", "pause", "stop"} {
		for _, tt := range []bool{false, true} {
			cfgs = append(cfgs, c03cfg{cmd: cmd, targets: 1, inflight: []string{"streaming"}, late: []string{"quick"}, shortTT: tt})
			if tier != "quick" {
				cfgs = append(cfgs, c03cfg{cmd: cmd, targets: 2, inflight: []string{"streaming", "early", "streaming"}, late: []string{"long"}, shortTT: tt})
			}
		}
	}
	return cfgs
}

type activeSpan struct {
	id       string
	target   string
	startSeq int
	endSeq   int // 0 = never ended
	startAt  time.Duration
	endAt    time.Duration
	endKind  string
}

func targetSpans(evs []memnet.Event) []*activeSpan {
	var spans []*activeSpan
	open := map[string]*activeSpan{}
	for _, e := range evs {
		switch e.Kind {
		case "req":
			sp := &activeSpan{id: e.ReqID, target: e.Target, startSeq: e.Seq, startAt: e.At}
			spans = append(spans, sp)
			open[e.Target+"|"+e.ReqID] = sp
		case "resp", "resp-abort", "upgrade-eof":
			if sp := open[e.Target+"|"+e.ReqID]; sp != nil {
				sp.endSeq, sp.endAt, sp.endKind = e.Seq, e.At, e.Kind
				delete(open, e.Target+"|"+e.ReqID)
			}
		}
	}
	return spans
}

func c03Scenario(c c03cfg) *Scenario {
	sc := &Scenario{Name: "C03 " + c.String(), Horizon: 60 * time.Second}
	const host = "a.example.com"
	olds := tnames("o", c.targets)
	drained := map[string]bool{}
	for _, n := range olds {
		drained[n] = true
	}
	if c.rollout {
		drained["ra:80"] = true
	}
	if c.cmd == "rollout-redeploy" {
		drained = map[string]bool{"ra:80": true} // only the replaced rollout target is drained
	}
	sc.Run = func(w *World) {
		for _, n := range olds {
			if c.sick {
				w.AddTarget(n, pOK(), p500())
			} else {
				w.AddTarget(n)
			}
		}
		w.AddTarget("na:80")
		w.AddTarget("rb:80")
		dargs := func(targets []string) DeployArgs {
			a := deployArgs("s1", targets, []string{host}, nil)
			if c.prefixes {
				a.ServiceOptions.PathPrefixes = []string{"/", "/app", "/app/v2"}
			}
			if c.shortTT {
				a.TargetOptions.ResponseTimeout = time.Second
			}
			return a
		}
		if r := w.Deploy(dargs(olds)); r.Err != nil {
			w.Note("setup: %v", r.Err)
			return
		}
		if c.rollout {
			w.AddTarget("ra:80")
			if r := w.RolloutDeploy("s1", []string{"ra:80"}); r.Err != nil {
				w.Note("setup: %v", r.Err)
				return
			}
			if r := w.RolloutSet("s1", 0, []string{"v"}); r.Err != nil {
				w.Note("setup: %v", r.Err)
				return
			}
		}
		time.Sleep(vI / 2)
		var wg vsync.WaitGroup
		if c.prior != "" {
			// an earlier drain of the same targets, ended by its deadline or by its request finishing, then resume
			plan := "hang"
			if c.prior == "clean" {
				plan = "delay=600ms"
			}
			wg.Add(1)
			vsched.GoTagged("client", func() {
				defer wg.Done()
				w.Do(ReqSpec{ID: "prior", Host: host, Plan: plan})
			})
			time.Sleep(100 * time.Millisecond)
			w.Pause("s1", vD, vMaxPause)
			w.Resume("s1")
			time.Sleep(vI/2 + 100*time.Millisecond)
		}
		for i, k := range c.inflight {
			wg.Add(1)
			plan := c03Inflight[k]
			if c.sick && strings.HasPrefix(plan, "delay=") {
				d, _ := time.ParseDuration(strings.TrimPrefix(plan, "delay="))
				plan = "delay=" + (d + 500*time.Millisecond).String()
			}
			spec := ReqSpec{ID: fmt.Sprintf("in%d-%s", i, k), Host: host, Plan: plan}
			if c.prefixes {
				spec.Path = []string{"/app/x", "/app/v2/x", "/x"}[i%3]
			}
			if k == "upgrade-ka" {
				spec.Upgrade, spec.UpgradeConn = true, "keep-alive, Upgrade"
			}
			if k == "upgrade" || k == "lateup" {
				spec.Upgrade = true
			}
			if k == "offer" {
				spec.Header = [][2]string{{"Connection", "Upgrade, HTTP2-Settings"}, {"Upgrade", "h2c"}, {"HTTP2-Settings", "AAMAAABkAARAAAAAAAIAAAAA"}}
			}
			if c.rollout && (i%2 == 1 || c.cmd == "rollout-redeploy") {
				spec.Cookie = "kamal-rollout=v"
			}
			vsched.GoTagged("client", func() {
				defer wg.Done()
				w.Do(spec)
			})
		}
		if c.rstopped {
			time.Sleep(50 * time.Millisecond) // the in-flight requests have reached their targets
			w.RolloutStop("s1")
		}
		if c.held {
			w.Pause("s1", vD, vMaxPause)
			for i, ck := range []string{"kamal-rollout=v", ""} {
				wg.Add(1)
				spec := ReqSpec{ID: fmt.Sprintf("held%d", i), Host: host, Cookie: ck}
				vsched.GoTagged("client", func() {
					defer wg.Done()
					w.Do(spec)
				})
			}
		}
		time.Sleep(100 * time.Millisecond)
		if c.sick {
			// wait for the probe that marks the targets unhealthy (the in-flight plans are
			// relative to the command start, so they are shifted by the same amount)
			time.Sleep(500 * time.Millisecond)
		}
		w.S.SetWindow(true)
		wg.Add(1)
		vsched.GoTagged("cmd", func() {
			defer wg.Done()
			switch c.cmd {
			case "redeploy":
				w.Deploy(dargs([]string{"na:80"}))
			case "pause":
				w.Pause("s1", vD, vMaxPause)
			case "stop":
				w.Stop("s1", vD, "maintenance")
			case "rollout-redeploy":
				w.RolloutDeploy("s1", []string{"rb:80"})
				if c.held {
					w.Resume("s1")
				}
			}
		})
		for i, k := range c.late {
			wg.Add(1)
			spec := ReqSpec{ID: fmt.Sprintf("late%d-%s", i, k), Host: host}
			if c.prefixes {
				spec.Path = []string{"/x", "/app/v2/x", "/app/x"}[i%3]
			}
			if k == "long" {
				spec.Plan = "delay=3s"
			}
			if c.cmd == "rollout-redeploy" && i%2 == 0 {
				spec.Cookie = "kamal-rollout=v"
			}
			vsched.GoTagged("client", func() {
				defer wg.Done()
				w.Do(spec)
			})
		}
		wg.Wait()
		w.S.SetWindow(false)
		time.Sleep(4 * time.Second)
		if c.cmd == "redeploy" {
			w.Do(ReqSpec{ID: "final", Host: host})
			if c.prefixes {
				w.Do(ReqSpec{ID: "final-app", Host: host, Path: "/app/x"})
				w.Do(ReqSpec{ID: "final-v2", Host: host, Path: "/app/v2/x"})
			}
		}
	}
	sc.Check = func(w *World) []Violation {
		var vs []Violation
		for _, n := range w.Notes {
			vs = append(vs, Violation{"C03", "setup", n})
		}
		var cmd *CmdObs
		for _, x := range w.Cmds {
			if x.Thread != "m" && cmd == nil {
				cmd = x
			}
		}
		if cmd == nil || !cmd.Done || len(vs) > 0 {
			return vs
		}
		if cmd.Err != nil {
			return append(vs, Violation{"C03", "command-failed", fmt.Sprintf("%s: %v", cmd.Name, cmd.Err)})
		}
		evs := w.Net.Events()
		spans := targetSpans(evs)
		stalled := w.HadStall()
		td := cmd.Start
		reqByID := map[string]*ReqObs{}
		for _, r := range w.Reqs {
			reqByID[r.ID] = r
		}
		// snapshot candidates: requests active on a drained target when the command started
		for _, sp := range spans {
			if !drained[sp.target] {
				continue
			}
			activeAtReturn := sp.startSeq < cmd.EndSeq && (sp.endSeq == 0 || sp.endSeq > cmd.EndSeq)
			if activeAtReturn {
				// was a request of the in-flight set still active on that target when this one was admitted?
				during := false
				for _, o := range spans {
					if o != sp && o.target == sp.target && o.startSeq < cmd.StartSeq && (o.endSeq == 0 || o.endSeq > sp.startSeq) {
						during = true
					}
				}
				sig := "active-at-return admitted-after-drain-ended"
				if sp.startSeq < cmd.StartSeq {
					sig = "active-at-return in-flight-request-not-cut-off"
				} else if during {
					sig = "active-at-return admitted-while-draining"
				}
				vs = append(vs, Violation{"C03", fmt.Sprintf("Q1 %s %s", c.cmd, sig), fmt.Sprintf("request %s still active on drained target %s when %s returned at %v (reached it at %v)", sp.id, sp.target, cmd.Name, cmd.End, sp.startAt)})
			}
			if sp.startSeq > cmd.EndSeq {
				what := "request"
				if strings.HasPrefix(sp.id, "held") {
					what = "held-request" // held by a pause that was in force long before the command began
				} else if r := reqByID[sp.id]; r != nil && r.StartSeq > cmd.EndSeq {
					what = "request-issued-after-return" // it cannot have resolved the service, or passed the gate, before the command took effect
				}
				vs = append(vs, Violation{"C03", fmt.Sprintf("Q2 %s %s-sent-to-drained-target-after-return", c.cmd, what), fmt.Sprintf("request %s reached drained target %s at %v, after %s returned at %v", sp.id, sp.target, sp.startAt, cmd.Name, cmd.End)})
			}
		}
		// in-flight requests
		for i, k := range c.inflight {
			r := reqByID[fmt.Sprintf("in%d-%s", i, k)]
			if r == nil || stalled {
				continue
			}
			switch k {
			case "early", "before", "offer", "streaming":
				if r.Status != 200 || r.Aborted || !r.Done || r.ServedBy() == "" {
					vs = append(vs, Violation{"C03", "Q3 in-flight-request-cut-short", fmt.Sprintf("%s (finishing before the drain deadline) got %s", r.ID, r.Summary())})
				}
			case "after", "never":
				if r.Status != 504 || !r.Done {
					vs = append(vs, Violation{"C03", "Q4 overdue-request-not-answered-504", fmt.Sprintf("%s got %s", r.ID, r.Summary())})
				} else if r.End != td+vD {
					vs = append(vs, Violation{"C03", "Q4 overdue-request-cut-at-wrong-time", fmt.Sprintf("%s answered 504 at %v, drain started %v, deadline %v", r.ID, r.End, td, td+vD)})
				}
			case "lateup":
				// in flight when draining began: may run on (now upgraded) until the deadline, not beyond
				if !r.Hijacked {
					vs = append(vs, Violation{"C03", "Q3 in-flight-request-cut-short", fmt.Sprintf("%s (upgrading 0.5s into the drain) got %s", r.ID, r.Summary())})
				} else if r.HijackEOF < 0 || r.HijackEOF > td+vD {
					vs = append(vs, Violation{"C03", "Q4 late-upgraded-connection-not-closed-at-deadline", fmt.Sprintf("%s saw EOF at %v (-1 = never), drain started %v, deadline %v", r.ID, r.HijackEOF, td, td+vD)})
				}
			case "upgrade", "upgrade-ka":
				if !r.Hijacked {
					vs = append(vs, Violation{"C03", "Q5 upgrade-not-established", r.Summary()})
				} else if r.HijackEOF < 0 {
					vs = append(vs, Violation{"C03", "Q5 upgraded-connection-not-closed", fmt.Sprintf("%s never saw EOF", r.ID)})
				} else if r.HijackEOF != td {
					vs = append(vs, Violation{"C03", "Q5 upgraded-connection-closed-late", fmt.Sprintf("%s saw EOF at %v, drain started %v", r.ID, r.HijackEOF, td)})
				}
			}
		}
		if c.held {
			for i, want := range []string{"rb:80", olds[0]} {
				r := reqByID[fmt.Sprintf("held%d", i)]
				if r != nil && r.Done && !stalled && c.targets == 1 && (r.Status != 200 || r.ServedBy() != want) {
					vs = append(vs, Violation{"C03", "Q2 held-request-not-served-by-current-target", fmt.Sprintf("%s, released by the resume after the rollout deploy returned, got %s (want %s)", r.ID, r.Summary(), want)})
				}
			}
		}
		if !stalled && cmd.End > td+vD {
			vs = append(vs, Violation{"C03", "Q6 return-after-drain-deadline", fmt.Sprintf("%s started %v returned %v (deadline %v)", cmd.Name, td, cmd.End, td+vD)})
		}
		return vs
	}
	return sc
}

func checkC03(t *testing.T, job *Job, res *Result) {
	tier := job.Tier
	if job.Replay != nil {
		tier = job.Replay.Tier
	}
	var scs []*Scenario
	for _, c := range c03Configs(tier) {
		sc := c03Scenario(c)
		scs = append(scs, sc)
		// second default schedule (late clients ahead of the command) for the commands that replace targets
		if (c.cmd == "redeploy" || c.cmd == "rollout-redeploy") && len(c.late) > 0 && len(c.inflight) > 0 && c.targets == 1 && !c.sick && c.prior == "" {
			scs = append(scs, withReversed([]*Scenario{sc})[1])
		}
	}
	b := Bounds{D: 2, S: 1, Total: 2}
	res.Rule = "configurations = command {redeploy, pause, stop, rollout deploy replacing the rollout target (also with requests held by a pause that is lifted afterwards)} x targets {1,2} x in-flight multiset over {done early, done just before the drain deadline, just after, never, upgraded} x late clients {quick, long} (x rollout targets); per configuration every schedule within the deviation bounds; oracle Q1-Q6 of DESIGN.md C03 on target-side logs and virtual time"
	runS(t, job, res, "C03", scs, b, 6000)
}
