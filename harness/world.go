//go:build verif

package server

import (
	"bufio"
	"bytes"
	"context"
	"crypto/tls"
	"fmt"
	"io"
	"log/slog"
	"net"
	"net/http"
	"os"
	"runtime"
	"sort"
	"strings"
	"sync"
	"sync/atomic"
	"testing"
	"time"

	"github.com/basecamp/kamal-proxy/internal/verif/memnet"
	"github.com/basecamp/kamal-proxy/internal/verif/vos"
	"github.com/basecamp/kamal-proxy/internal/verif/vsched"
	"github.com/basecamp/kamal-proxy/internal/verif/vsync"
)

// Virtual durations: pairwise incommensurable across timer kinds (DESIGN 2.2).
const (
	vI           = 1000 * time.Millisecond // probe interval
	vProbeTO     = 450 * time.Millisecond  // probe timeout
	vSlowProbe   = 700 * time.Millisecond
	vT           = 5300 * time.Millisecond // deploy timeout
	vD           = 2100 * time.Millisecond // drain timeout
	vMaxPause    = 3150 * time.Millisecond
	vTargetTO    = 4200 * time.Millisecond
	vHealthPath  = "/up"
	proxyErrMark = "<!doctype html>" // built-in error pages start like this
)

type World struct {
	T       *testing.T
	S       *vsched.Sched
	Net     *memnet.Net
	Dir     string
	State   string
	Router  *Router
	Cmd     *CommandHandler
	Handler http.Handler
	Log     *logCapture

	mu       sync.Mutex
	Reqs     []*ReqObs
	Cmds     []*CmdObs
	FileLog  []vos.Event
	Images   []Image
	reqSeq   int
	Notes    []string
	finished bool
	probe    *probeRT
}

type Image struct {
	After  string // description of the operation after which the image was taken
	Exists bool
	Data   []byte
	Seq    int
	// what else a killed process leaves next to the state file: files whose name starts with the state file's name
	// (temporary files of an unfinished save), keyed by the rest of their name
	Siblings map[string][]byte
}

type CmdObs struct {
	Name     string
	Args     string
	Thread   string
	Start    time.Duration
	End      time.Duration
	StartSeq int
	EndSeq   int
	Err      error
	Done     bool
	Panic    any
}

type ReqObs struct {
	ID        string
	Spec      ReqSpec
	Thread    string
	Start     time.Duration
	End       time.Duration
	StartSeq  int
	EndSeq    int
	HeaderAt  time.Duration
	Status    int
	Header    http.Header
	Body      []byte
	Aborted   bool // handler panicked with http.ErrAbortHandler
	Panic     any
	Done      bool
	Hijacked  bool
	HijackEOF time.Duration // when the client side of an upgraded connection saw EOF (-1 = never)
	Sites     []string
	Flushes   []FlushRec
}

type FlushRec struct {
	At  time.Duration
	Len int
}

type ReqSpec struct {
	// UpgradeConn: value of the Connection header of an upgrade request (default "Upgrade"; browsers send "keep-alive, Upgrade")
	UpgradeConn string
	// SlowClient: the client takes the response slowly: every Write of the response is a scheduling point (between the
	// handler producing the bytes and the connection taking them)
	SlowClient bool
	ID         string
	Method     string
	Host       string
	Path       string // raw request target
	Header     [][2]string
	Plan       string
	Body       []byte
	Chunked    bool
	TLS        bool
	Cookie     string
	Upgrade    bool
	Remote     string
	// CancelAfter cancels the request context after this virtual duration (client abort)
	CancelAfter time.Duration
	// body arrives in pieces with gaps
	BodyChunks [][]byte
	BodyGap    time.Duration
	// BodyFailAfter > 0: the body reader fails (client went away) after that many chunks
	BodyFailAfter int
}

var discardLogger = slog.New(slog.NewTextHandler(io.Discard, &slog.HandlerOptions{Level: slog.LevelError + 10}))

type probeRT struct {
	inner  http.RoundTripper
	killed atomic.Bool
}

func (p *probeRT) RoundTrip(req *http.Request) (*http.Response, error) {
	if p.killed.Load() {
		// teardown kill-switch for probe loops the code under test leaked
		leakedProbeLoops.Add(1)
		runtime.Goexit()
	}
	vsched.HarnessPoint("probe-send")
	sent := 0
	if n := memnet.Cur(); n != nil {
		sent = n.Mark2("probe-sent", req.URL.Host, 0, "")
	}
	resp, err := p.inner.RoundTrip(req)
	// what the proxy is about to learn from this probe (Conn = sequence number of its probe-sent event)
	if n := memnet.Cur(); n != nil {
		if err != nil {
			n.MarkRef("probe-result", req.URL.Host, 0, err.Error(), sent)
		} else {
			n.MarkRef("probe-result", req.URL.Host, resp.StatusCode, "", sent)
		}
	}
	vsched.HarnessPoint("probe-recv")
	return resp, err
}

var execCounter int

var leakedProbeLoops atomic.Int64

// NewWorld builds a fresh router on a fresh in-memory network. Must be called
// inside the bubble.
func NewWorld(t *testing.T, captureLog bool) *World {
	execCounter++
	w := &World{T: t, S: vsched.Cur()}
	w.Net = memnet.New()
	memnet.ProbeUserAgent = "kamal-proxy" // probes sent through a client other than the default one are recognised by this
	base := os.Getenv("VERIF_SCRATCH")
	if base == "" {
		base = "/dev/shm"
	}
	dir, err := os.MkdirTemp(base, "kpv-")
	if err != nil {
		panic(err)
	}
	w.Dir = dir
	w.State = dir + "/kamal-proxy.state"
	os.Setenv("TMPDIR", dir+"/tmp")
	os.Mkdir(dir+"/tmp", 0o755)
	w.probe = &probeRT{inner: &http.Transport{DialContext: memnet.DialProbe, DisableKeepAlives: true}}
	http.DefaultTransport = w.probe
	if captureLog {
		w.Log = newLogCapture()
		slog.SetDefault(slog.New(w.Log))
	} else {
		slog.SetDefault(discardLogger)
	}
	vos.SetHook(w.fileHook)
	w.Router = NewRouter(w.State)
	w.Cmd = NewCommandHandler(w.Router)
	srv := NewServer(&Config{HttpPort: 80, HttpsPort: 443, AlternateConfigDir: dir}, w.Router)
	w.Handler = srv.buildHandler()
	return w
}

// Restart replaces the router by a new one restored from the state file.
func (w *World) Restart() error {
	w.Router = NewRouter(w.State)
	err := w.Router.RestoreLastSavedState()
	w.Cmd = NewCommandHandler(w.Router)
	srv := NewServer(&Config{HttpPort: 80, HttpsPort: 443, AlternateConfigDir: w.Dir}, w.Router)
	w.Handler = srv.buildHandler()
	return err
}

func (w *World) fileHook(e vos.Event) {
	w.mu.Lock()
	defer w.mu.Unlock()
	w.FileLog = append(w.FileLog, e)
	if e.After {
		w.snapshotLocked(e.Op + ":" + shortPath(e.Path))
	}
}

func shortPath(p string) string {
	if i := strings.LastIndex(p, "/"); i >= 0 {
		p = p[i+1:]
	}
	if strings.HasPrefix(p, "proxy-buffer-") {
		return "proxy-buffer-*"
	}
	return p
}

func (w *World) snapshotLocked(after string) {
	b, err := os.ReadFile(w.State)
	im := Image{After: after, Exists: err == nil, Data: b, Seq: len(w.FileLog)}
	if i := strings.LastIndex(w.State, "/"); i >= 0 {
		dir, base := w.State[:i], w.State[i+1:]
		if ents, derr := os.ReadDir(dir); derr == nil {
			for _, e := range ents {
				if n := e.Name(); n != base && strings.HasPrefix(n, base) && e.Type().IsRegular() {
					if sb, rerr := os.ReadFile(dir + "/" + n); rerr == nil {
						if im.Siblings == nil {
							im.Siblings = map[string][]byte{}
						}
						im.Siblings[strings.TrimPrefix(n, base)] = sb
					}
				}
			}
		}
	}
	w.Images = append(w.Images, im)
}

func (w *World) Snapshot(after string) {
	w.mu.Lock()
	defer w.mu.Unlock()
	w.snapshotLocked(after)
}

// Finish tears everything down; to be called at the end of the main thread.
func (w *World) Finish() {
	w.mu.Lock()
	w.finished = true
	w.mu.Unlock()
	if w.S != nil {
		w.S.Kill()
	}
	if w.probe != nil {
		w.probe.killed.Store(true)
	}
	w.Net.Close()
	vsync.WakeAll()
	vos.SetHook(nil)
}

func (w *World) Cleanup() {
	os.RemoveAll(w.Dir)
}

func (w *World) Now() time.Duration { return w.Net.Now() }

// ProbeFailures counts probes whose result, as seen by the proxy, was a
// failure (only possible through stalls when every script says "ok").
func (w *World) ProbeFailures() int {
	n := 0
	for _, e := range w.Net.Events() {
		if e.Kind == "probe-result" && !(e.Status >= 200 && e.Status <= 299) {
			n++
		}
	}
	return n
}

// HadStall reports whether the schedule of this execution let virtual time
// pass while a thread was runnable.
func (w *World) HadStall() bool {
	if w.S == nil {
		return false
	}
	for _, st := range w.S.Trace {
		if len(st.Menu) > 1 && st.Choice == len(st.Menu)-1 {
			return true
		}
	}
	return false
}

func (w *World) Note(format string, a ...any) {
	w.mu.Lock()
	w.Notes = append(w.Notes, fmt.Sprintf(format, a...))
	w.mu.Unlock()
}

// ---------------------------------------------------------------------------
// targets

// AddTarget registers a scripted target ("ta" -> "ta:80").
func (w *World) AddTarget(name string, probes ...memnet.ProbeStep) *memnet.Target {
	return w.Net.Add(&memnet.Target{Name: name, HealthPath: vHealthPath, Probes: probes})
}

func pOK() memnet.ProbeStep { return memnet.ProbeStep{Kind: "ok"} }
func pOKAfter(d time.Duration) memnet.ProbeStep {
	return memnet.ProbeStep{Kind: "ok", Delay: d}
}
func pRefuse() memnet.ProbeStep { return memnet.ProbeStep{Kind: "refuse"} }
func p500() memnet.ProbeStep    { return memnet.ProbeStep{Kind: "status", Status: 500} }
func pStatus(s int) memnet.ProbeStep {
	return memnet.ProbeStep{Kind: "status", Status: s}
}
func pSlow() memnet.ProbeStep { return memnet.ProbeStep{Kind: "ok", Delay: vSlowProbe} }
func pHang() memnet.ProbeStep { return memnet.ProbeStep{Kind: "hang"} }

// pStallBody: the probe is answered 200 at once but its body never completes
func pStallBody() memnet.ProbeStep { return memnet.ProbeStep{Kind: "ok-stall"} }

// ---------------------------------------------------------------------------
// commands

func vTargetOptions() TargetOptions {
	return TargetOptions{
		HealthCheckConfig: HealthCheckConfig{Path: vHealthPath, Interval: vI, Timeout: vProbeTO},
		ResponseTimeout:   vTargetTO,
	}
}

func deployArgs(service string, targets []string, hosts []string, paths []string) DeployArgs {
	return DeployArgs{
		Service:        service,
		TargetURLs:     targets,
		DeployTimeout:  vT,
		DrainTimeout:   vD,
		ServiceOptions: ServiceOptions{Hosts: hosts, PathPrefixes: paths, TLSRedirect: true, StripPrefix: true},
		TargetOptions:  vTargetOptions(),
	}
}

func (w *World) runCmd(name, args string, f func() error) *CmdObs {
	c := &CmdObs{Name: name, Args: args}
	if t := vsched.CurrentThread(); t != nil {
		c.Thread = t.Name
	}
	w.mu.Lock()
	w.Cmds = append(w.Cmds, c)
	w.mu.Unlock()
	c.Start = w.Now()
	c.StartSeq = w.Net.Mark("cmd-start", name+" "+args)
	func() {
		defer func() {
			if r := recover(); r != nil {
				c.Panic = r
				c.Err = fmt.Errorf("panic: %v", r)
			}
		}()
		c.Err = f()
	}()
	c.End = w.Now()
	note := name + " " + args
	if c.Err != nil {
		note += " err=" + c.Err.Error()
	}
	c.EndSeq = w.Net.Mark("cmd-end", note)
	c.Done = true
	return c
}

func (w *World) Deploy(a DeployArgs) *CmdObs {
	return w.runCmd("deploy", fmt.Sprintf("%s targets=%v hosts=%v paths=%v", a.Service, a.TargetURLs, a.ServiceOptions.Hosts, a.ServiceOptions.PathPrefixes), func() error {
		var reply bool
		return w.Cmd.Deploy(a, &reply)
	})
}

func (w *World) RolloutDeploy(service string, targets []string) *CmdObs {
	return w.runCmd("rollout-deploy", fmt.Sprintf("%s targets=%v", service, targets), func() error {
		var reply bool
		return w.Cmd.RolloutDeploy(RolloutDeployArgs{Service: service, TargetURLs: targets, DeployTimeout: vT, DrainTimeout: vD}, &reply)
	})
}

func (w *World) RolloutSet(service string, pct int, allow []string) *CmdObs {
	return w.runCmd("rollout-set", fmt.Sprintf("%s pct=%d allow=%v", service, pct, allow), func() error {
		var reply bool
		return w.Cmd.RolloutSet(RolloutSetArgs{Service: service, Percentage: pct, Allowlist: allow}, &reply)
	})
}

func (w *World) RolloutStop(service string) *CmdObs {
	return w.runCmd("rollout-stop", service, func() error {
		var reply bool
		return w.Cmd.RolloutStop(RolloutStopArgs{Service: service}, &reply)
	})
}

func (w *World) Pause(service string, drain, maxPause time.Duration) *CmdObs {
	return w.runCmd("pause", fmt.Sprintf("%s drain=%v max=%v", service, drain, maxPause), func() error {
		var reply bool
		return w.Cmd.Pause(PauseArgs{Service: service, DrainTimeout: drain, PauseTimeout: maxPause}, &reply)
	})
}

func (w *World) Stop(service string, drain time.Duration, msg string) *CmdObs {
	return w.runCmd("stop", fmt.Sprintf("%s drain=%v msg=%q", service, drain, msg), func() error {
		var reply bool
		return w.Cmd.Stop(StopArgs{Service: service, DrainTimeout: drain, Message: msg}, &reply)
	})
}

func (w *World) Resume(service string) *CmdObs {
	return w.runCmd("resume", service, func() error {
		var reply bool
		return w.Cmd.Resume(ResumeArgs{Service: service}, &reply)
	})
}

func (w *World) Remove(service string) *CmdObs {
	return w.runCmd("remove", service, func() error {
		var reply bool
		return w.Cmd.Remove(RemoveArgs{Service: service}, &reply)
	})
}

func (w *World) List() (ServiceDescriptionMap, *CmdObs) {
	var reply ListResponse
	c := w.runCmd("list", "", func() error {
		return w.Cmd.List(true, &reply)
	})
	return reply.Targets, c
}

// ---------------------------------------------------------------------------
// client requests

type respWriter struct {
	w        *World
	obs      *ReqObs
	hdr      http.Header
	wrote    bool
	body     bytes.Buffer
	hijacked bool
	client   *memnet.Conn // client end of an upgraded connection
}

func (rw *respWriter) Header() http.Header { return rw.hdr }

func (rw *respWriter) WriteHeader(code int) {
	if rw.wrote {
		return
	}
	if code >= 100 && code < 200 && code != 101 {
		return // informational
	}
	rw.wrote = true
	rw.obs.Status = code
	rw.obs.Header = rw.hdr.Clone()
	rw.obs.HeaderAt = rw.w.Now()
	if t := vsched.CurrentThread(); t != nil {
		rw.obs.Sites = append([]string(nil), t.Sites...)
	}
}

func (rw *respWriter) Write(p []byte) (int, error) {
	if rw.hijacked {
		return 0, http.ErrHijacked
	}
	if !rw.wrote {
		rw.WriteHeader(200)
	}
	if rw.obs.Spec.Method == "HEAD" {
		return len(p), nil
	}
	if rw.obs.Spec.SlowClient {
		vsched.HarnessPoint("resp-write")
	}
	rw.body.Write(p)
	return len(p), nil
}

func (rw *respWriter) Flush() {
	if !rw.wrote {
		rw.WriteHeader(200)
	}
	rw.obs.Flushes = append(rw.obs.Flushes, FlushRec{At: rw.w.Now(), Len: rw.body.Len()})
}

func (rw *respWriter) Hijack() (net.Conn, *bufio.ReadWriter, error) {
	if rw.hijacked {
		return nil, nil, http.ErrHijacked
	}
	rw.hijacked = true
	rw.obs.Hijacked = true
	srv, cli := memnet.NewPipe(rw.w.Net)
	rw.client = cli
	obs := rw.obs
	obs.HijackEOF = -1
	w := rw.w
	// the client end: send one message, then read until EOF
	go func() {
		cli.Write([]byte("hello"))
		buf := make([]byte, 4096)
		for {
			n, err := cli.Read(buf)
			if n > 0 {
				w.mu.Lock()
				obs.Body = append(obs.Body, buf[:n]...)
				w.mu.Unlock()
			}
			if err != nil {
				w.mu.Lock()
				obs.HijackEOF = w.Now()
				w.mu.Unlock()
				cli.Close()
				return
			}
		}
	}()
	return srv, bufio.NewReadWriter(bufio.NewReader(srv), bufio.NewWriter(srv)), nil
}

type chunkedBody struct {
	chunks    [][]byte
	gap       time.Duration
	i         int
	cur       []byte
	w         *World
	LastAt    time.Duration
	failAfter int
}

func (b *chunkedBody) Read(p []byte) (int, error) {
	if len(b.cur) == 0 {
		if b.failAfter > 0 && b.i >= b.failAfter {
			return 0, io.ErrUnexpectedEOF
		}
		if b.i >= len(b.chunks) {
			return 0, io.EOF
		}
		if b.i > 0 && b.gap > 0 {
			time.Sleep(b.gap)
		}
		b.cur = b.chunks[b.i]
		b.i++
		b.LastAt = b.w.Now()
	}
	n := copy(p, b.cur)
	b.cur = b.cur[n:]
	return n, nil
}
func (b *chunkedBody) Close() error { return nil }

var dummyServer = &http.Server{}

func (w *World) buildRequest(spec ReqSpec) (*http.Request, error) {
	var raw bytes.Buffer
	method := spec.Method
	if method == "" {
		method = "GET"
	}
	path := spec.Path
	if path == "" {
		path = "/"
	}
	fmt.Fprintf(&raw, "%s %s HTTP/1.1\r\n", method, path)
	if spec.Host != "" {
		fmt.Fprintf(&raw, "Host: %s\r\n", spec.Host)
	}
	for _, kv := range spec.Header {
		fmt.Fprintf(&raw, "%s: %s\r\n", kv[0], kv[1])
	}
	if spec.ID != "" && spec.ID != "-" {
		fmt.Fprintf(&raw, "X-Request-ID: %s\r\n", spec.ID)
	}
	if spec.Plan != "" {
		fmt.Fprintf(&raw, "X-Verif-Plan: %s\r\n", spec.Plan)
	}
	if spec.Cookie != "" {
		fmt.Fprintf(&raw, "Cookie: %s\r\n", spec.Cookie)
	}
	if spec.Upgrade {
		conn := spec.UpgradeConn
		if conn == "" {
			conn = "Upgrade"
		}
		raw.WriteString("Connection: " + conn + "\r\nUpgrade: websocket\r\n")
	}
	var body io.ReadCloser
	if len(spec.BodyChunks) > 0 {
		total := 0
		for _, c := range spec.BodyChunks {
			total += len(c)
		}
		if spec.Chunked {
			raw.WriteString("Transfer-Encoding: chunked\r\n\r\n")
		} else {
			fmt.Fprintf(&raw, "Content-Length: %d\r\n\r\n", total)
		}
		body = &chunkedBody{chunks: spec.BodyChunks, gap: spec.BodyGap, w: w, failAfter: spec.BodyFailAfter}
	} else if spec.Body != nil {
		if spec.Chunked {
			raw.WriteString("Transfer-Encoding: chunked\r\n\r\n")
			fmt.Fprintf(&raw, "%x\r\n", len(spec.Body))
			raw.Write(spec.Body)
			raw.WriteString("\r\n0\r\n\r\n")
		} else {
			fmt.Fprintf(&raw, "Content-Length: %d\r\n\r\n", len(spec.Body))
			raw.Write(spec.Body)
		}
	} else {
		raw.WriteString("\r\n")
	}
	req, err := http.ReadRequest(bufio.NewReader(&raw))
	if err != nil {
		return nil, err
	}
	if body != nil {
		req.Body = body
		if spec.Chunked {
			req.ContentLength = -1
		}
	}
	req.RemoteAddr = spec.Remote
	if req.RemoteAddr == "" {
		req.RemoteAddr = "192.0.2.7:51234"
	}
	if spec.TLS {
		req.TLS = &tls.ConnectionState{}
	}
	ctx := context.WithValue(context.Background(), http.ServerContextKey, dummyServer)
	ctx = context.WithValue(ctx, http.LocalAddrContextKey, net.Addr(&net.TCPAddr{IP: net.IPv4(192, 0, 2, 1), Port: 80}))
	req = req.WithContext(ctx)
	return req, nil
}

// Do serves one request through the full handler chain on the calling thread.
func (w *World) Do(spec ReqSpec) *ReqObs {
	w.mu.Lock()
	w.reqSeq++
	if spec.ID == "" {
		spec.ID = fmt.Sprintf("q%d", w.reqSeq)
	}
	obs := &ReqObs{ID: spec.ID, Spec: spec, HijackEOF: -1}
	w.Reqs = append(w.Reqs, obs)
	w.mu.Unlock()
	if t := vsched.CurrentThread(); t != nil {
		obs.Thread = t.Name
	}
	req, err := w.buildRequest(spec)
	if err != nil {
		obs.Panic = "bad request spec: " + err.Error()
		obs.Done = true
		return obs
	}
	var cancel context.CancelFunc
	if spec.CancelAfter > 0 {
		var ctx context.Context
		ctx, cancel = context.WithCancel(req.Context())
		req = req.WithContext(ctx)
		tm := time.AfterFunc(spec.CancelAfter, cancel)
		defer tm.Stop()
	}
	rw := &respWriter{w: w, obs: obs, hdr: http.Header{}}
	obs.Start = w.Now()
	obs.StartSeq = w.Net.Mark("req-start", spec.ID)
	func() {
		defer func() {
			if r := recover(); r != nil {
				if r == http.ErrAbortHandler {
					obs.Aborted = true
				} else {
					obs.Panic = r
				}
			}
		}()
		w.Handler.ServeHTTP(rw, req)
	}()
	if cancel != nil {
		cancel()
	}
	if !rw.wrote && !rw.hijacked && !obs.Aborted && obs.Panic == nil {
		rw.WriteHeader(200)
	}
	w.mu.Lock()
	if !rw.hijacked {
		obs.Body = append([]byte(nil), rw.body.Bytes()...)
	}
	w.mu.Unlock()
	obs.End = w.Now()
	obs.EndSeq = w.Net.Mark("req-end", fmt.Sprintf("%s status=%d", spec.ID, obs.Status))
	obs.Done = true
	return obs
}

// ServedBy returns the X-Target header of a proxied response ("" if the
// response did not come from a target).
func (o *ReqObs) ServedBy() string {
	if o.Header == nil {
		return ""
	}
	return o.Header.Get("X-Target")
}

func (o *ReqObs) IsProxyError() bool {
	return o.ServedBy() == "" && o.Status >= 400
}

func (o *ReqObs) Summary() string {
	s := fmt.Sprintf("%s:%d", o.ID, o.Status)
	if t := o.ServedBy(); t != "" {
		s += "@" + t
	}
	if o.Aborted {
		s += "!abort"
	}
	if o.Panic != nil {
		s += fmt.Sprintf("!panic(%v)", o.Panic)
	}
	if !o.Done {
		s += "!unfinished"
	}
	return s
}

// ---------------------------------------------------------------------------
// log capture (C19)

type logCapture struct {
	mu      sync.Mutex
	Records []map[string]any
}

func newLogCapture() *logCapture { return &logCapture{} }

func (l *logCapture) Enabled(ctx context.Context, lv slog.Level) bool { return lv >= slog.LevelInfo }
func (l *logCapture) Handle(ctx context.Context, r slog.Record) error {
	if r.Message != "Request" {
		return nil
	}
	m := map[string]any{}
	r.Attrs(func(a slog.Attr) bool {
		m[a.Key] = a.Value.Any()
		return true
	})
	l.mu.Lock()
	l.Records = append(l.Records, m)
	l.mu.Unlock()
	return nil
}
func (l *logCapture) WithAttrs(attrs []slog.Attr) slog.Handler { return l }
func (l *logCapture) WithGroup(name string) slog.Handler       { return l }

// ---------------------------------------------------------------------------
// helpers over the target-side log

func eventsOf(evs []memnet.Event, kind string) []memnet.Event {
	var res []memnet.Event
	for _, e := range evs {
		if e.Kind == kind {
			res = append(res, e)
		}
	}
	return res
}

func sortedKeys[V any](m map[string]V) []string {
	ks := make([]string, 0, len(m))
	for k := range m {
		ks = append(ks, k)
	}
	sort.Strings(ks)
	return ks
}

func init() {
	// maps keyed by *http.Request (Target.inflight) are iterated in request-id order, rotated by the search
	vsched.KeyID = func(k any) (string, bool) {
		if r, ok := k.(*http.Request); ok && r != nil {
			if id := r.Header.Get("X-Request-Id"); id != "" {
				return id, true
			}
		}
		return "", false
	}
}
