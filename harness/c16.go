//go:build verif

package server

import (
	"context"
	"crypto/tls"
	"fmt"
	"strings"
	"testing"
	"time"

	"github.com/basecamp/kamal-proxy/internal/verif/vsched"
	"github.com/basecamp/kamal-proxy/internal/verif/vsync"

	"golang.org/x/crypto/acme/autocert"
)

func init() { checks["C16"] = checkC16 }

var c16Alphabet = []string{
	"deploy ra h=a.example.com p=/ o=plain",
	"deploy ra h=a.example.com p=/ o=tls",
	"deploy ra h=a.example.com p=/ o=tlsnr",
	"deploy ra h=c.example.com p=/ o=tls", // the root service of a.example.com moves away: its host is left without a root service
	"deploy rb h=b.example.com p=/ o=tls",
	"deploy rb h=b.example.com p=/ o=plain",
	"deploy rb h=a.example.com p=/ o=plain", // ... and moves onto another service's host
	"deploy rw h=*.example.com p=/ o=tls",
	"deploy rw h=*.example.com p=/ o=plain",
	"deploy sa h=a.example.com p=/api o=plain",
	"deploy sa h=a.example.com p=/api o=tls",
	"deploy sb h=b.example.com p=/api o=tlsnr",
	"deploy sm h=a.example.com,b.example.com p=/api/v2 o=plain",
	"deploy sd h=- p=/api o=tls",
	"remove ra",
	"remove rb",
	"restart",
	// the policy is applied before the pause/stop gate: a stopped or paused TLS service still redirects plain HTTP
	"stop ra msg=closed",
	"pause sa max=20000",
	"stop sb msg=closed",
}

func c16Spec(tier string) *HSpec {
	depth := 3
	if tier == "thorough" {
		depth = 4
	}
	spec := &HSpec{Prop: "C16", Name: "C16", Depth: depth,
		Obs: ObsSpec{
			Hosts:   []string{"a.example.com", "a.example.com:80", "a.example.com:8443", "b.example.com", "x.example.com", "other.org"},
			Paths:   []string{"/", "/api/x?a=1&b=%2F", "//evil.example/x", "/a%2Fb?x=;y", "/api/v2/z"},
			Cookies: []string{""}, TLS: []bool{false, true}},
		Clauses: map[string]bool{"routing": true, "tls-policy": true, "tls-policy subpath-multihost-follows-first-host": true, "gate": true, "target-set": true, "list": true},
	}
	spec.Alphabet = func(m *Model, d int) []string {
		var out []string
		for _, a := range c16Alphabet {
			h := &HWorld{World: &World{}, M: m.clone(), allNames: map[string]bool{}}
			if len(h.applyModel(parseOp(a))) > 0 {
				continue
			}
			if a == "restart" && len(m.Services) == 0 {
				continue
			}
			out = append(out, a)
		}
		return out
	}
	spec.Extra = c16Extra
	return spec
}

// certificates: GetCertificate(SNI) returns the static certificate iff the
// name resolves to a TLS-enabled service on the root path of that name.
func c16Extra(h *HWorld, op HOp, o *HObs) []Violation {
	var vs []Violation
	for _, sni := range []string{"a.example.com", "b.example.com", "x.example.com", "y.x.example.com", "other.org", "example.com", ""} {
		want := false
		if sni != "" {
			if n, _ := h.M.route(sni, "/"); n != "" {
				s := h.M.Services[n]
				root := false
				for _, p := range s.Paths {
					if p == "/" {
						root = true
					}
				}
				on, _ := optTLS(s.Opt)
				want = root && on
			}
		}
		cert, err := h.Router.GetCertificate(&tls.ClientHelloInfo{ServerName: sni})
		got := err == nil && cert != nil
		if got != want {
			sig := "certificate-served-for-unbound-or-non-tls-name"
			if want {
				sig = "certificate-refused-for-tls-service"
			}
			vs = append(vs, Violation{"C16", sig, fmt.Sprintf("SNI %q: GetCertificate returned cert=%v err=%v; model: %s", sni, cert != nil, err, h.M.key())})
		}
	}
	return vs
}

// automatic TLS stops at the boundary of the ACME client: the manager accepts
// exactly the bound hosts
func c16Acme(w *World) []Violation {
	var vs []Violation
	w.AddTarget("acme1:80")
	a := deployArgs("acme", []string{"acme1:80"}, []string{"a.example.com", "b.example.com"}, nil)
	a.ServiceOptions.TLSEnabled = true
	a.ServiceOptions.ACMECachePath = w.Dir + "/acme"
	if r := w.Deploy(a); r.Err != nil {
		return []Violation{{"C16", "acme-deploy-failed", r.Err.Error()}}
	}
	svc := w.Router.serviceForHost("a.example.com")
	if svc == nil {
		return []Violation{{"C16", "acme-service-not-routed", ""}}
	}
	mgr, ok := svc.certManager.(*autocert.Manager)
	if !ok {
		return []Violation{{"C16", "acme-manager-missing", fmt.Sprintf("%T", svc.certManager)}}
	}
	for host, want := range map[string]bool{"a.example.com": true, "b.example.com": true, "c.example.com": false, "x.a.example.com": false, "": false} {
		err := mgr.HostPolicy(context.Background(), host)
		if (err == nil) != want {
			vs = append(vs, Violation{"C16", "acme-host-policy", fmt.Sprintf("host %q accepted=%v", host, err == nil)})
		}
	}
	for _, sni := range []string{"c.example.com", "other.org"} {
		if _, err := w.Router.GetCertificate(&tls.ClientHelloInfo{ServerName: sni}); err == nil {
			vs = append(vs, Violation{"C16", "certificate-served-for-unbound-or-non-tls-name", sni})
		}
	}
	// plain HTTP is redirected, except nothing is forwarded
	r := w.Do(ReqSpec{Host: "a.example.com:80", Path: "/p?q=1"})
	if r.Status != 301 || r.Header.Get("Location") != "https://a.example.com/p?q=1" {
		vs = append(vs, Violation{"C16", "acme-service-redirect", r.Summary() + " " + r.Header.Get("Location")})
	}
	// a wildcard host with automatic TLS is refused
	w.AddTarget("acme2:80")
	b := deployArgs("acmew", []string{"acme2:80"}, []string{"*.wild.example.com"}, nil)
	b.ServiceOptions.TLSEnabled = true
	if r := w.Deploy(b); classifyErr(r.Err) != "acme-wildcard" {
		vs = append(vs, Violation{"C16", "automatic-tls-accepted-for-wildcard", fmt.Sprint(r.Err)})
	}
	return vs
}

// c16AcmeWildcardFrom: automatic TLS on a wildcard host is refused whatever the service looked like before
// (absent, plain, static certificate, automatic TLS with or without a cache path), and the earlier deployment stays.
func c16AcmeWildcardFrom(prior string, hosts []string) func(w *World) []Violation {
	return func(w *World) []Violation {
		var vs []Violation
		fx := fixtures()
		name := "aw-" + prior
		old := fmt.Sprintf("awo-%s:80", prior)
		w.AddTarget(old)
		w.AddTarget("awn:80")
		host := prior + ".acme.example.com"
		if prior != "absent" {
			a := deployArgs(name, []string{old}, []string{host}, nil)
			switch prior {
			case "static":
				a.ServiceOptions.TLSEnabled = true
				a.ServiceOptions.TLSCertificatePath, a.ServiceOptions.TLSPrivateKeyPath = fx+"/cert.pem", fx+"/key.pem"
			case "auto":
				a.ServiceOptions.TLSEnabled = true
			case "auto-cache":
				a.ServiceOptions.TLSEnabled = true
				a.ServiceOptions.ACMECachePath = w.Dir + "/acme-" + prior
			}
			if r := w.Deploy(a); r.Err != nil {
				return []Violation{{"C16", "acme-setup-failed", prior + ": " + r.Err.Error()}}
			}
		}
		b := deployArgs(name, []string{"awn:80"}, hosts, nil)
		b.ServiceOptions.TLSEnabled = true
		if prior == "auto-cache" {
			b.ServiceOptions.ACMECachePath = w.Dir + "/acme-" + prior
		}
		r := w.Deploy(b)
		if classifyErr(r.Err) != "acme-wildcard" {
			vs = append(vs, Violation{"C16", "automatic-tls-accepted-for-wildcard", fmt.Sprintf("service previously %s, redeployed with automatic TLS on %v: %v", prior, hosts, r.Err)})
		}
		// nothing of the refused deployment is in force
		if prior != "absent" {
			tls := prior != "plain"
			q := w.Do(ReqSpec{Host: host, Path: "/p", TLS: tls})
			if q.Status != 200 || q.ServedBy() != old {
				vs = append(vs, Violation{"C16", "refused-acme-deploy-changed-routing", fmt.Sprintf("prior=%s: request to the earlier host got %s", prior, q.Summary())})
			}
		}
		q := w.Do(ReqSpec{Host: "foo.wild.acme.example.com", Path: "/p"})
		if q.Status != 404 {
			vs = append(vs, Violation{"C16", "refused-acme-deploy-changed-routing", fmt.Sprintf("prior=%s: request to a name under the wildcard got %s", prior, q.Summary())})
		}
		if _, err := w.Router.GetCertificate(&tls.ClientHelloInfo{ServerName: "foo.wild.acme.example.com"}); err == nil {
			vs = append(vs, Violation{"C16", "certificate-served-for-unbound-or-non-tls-name", "foo.wild.acme.example.com after a refused wildcard deploy (prior=" + prior + ")"})
		}
		if prior != "absent" {
			w.Remove(name)
		}
		return vs
	}
}

// ---- engine S part: the policy of a sub-path service holds at every instant while other commands run

type c16cfg struct {
	root string // option of the root-path service of a.example.com: tls | tlsnr
	cmd  string // the overlapping command; none of them changes the policy of a.example.com
}

func c16Scenario(c c16cfg) *Scenario {
	sc := &Scenario{Name: fmt.Sprintf("C16-S root=%s cmd=%q", c.root, c.cmd), Horizon: 60 * time.Second}
	var plain, secure *ReqObs
	var subTarget string
	sc.Run = func(w *World) {
		plain, secure = nil, nil
		h := &HWorld{World: w, M: newModel(), allNames: map[string]bool{}}
		h.apply(parseOp("deploy ra h=a.example.com p=/ o=" + c.root))
		sub := parseOp("deploy sa h=a.example.com p=/api o=plain")
		h.apply(sub)
		h.apply(parseOp("deploy rb h=b.example.com p=/ o=plain"))
		if ms := h.M.Services["sa"]; ms != nil && len(ms.Active) > 0 {
			subTarget = ms.Active[0]
		}
		time.Sleep(100 * time.Millisecond)
		ch := &HWorld{World: w, M: h.M.clone(), allNames: map[string]bool{}, opNo: 50}
		var wg vsync.WaitGroup
		w.S.SetWindow(true)
		wg.Add(3)
		// the clients come first in the default schedule: one deviation parks a request between routing and its
		// policy check, a second one parks the command in the middle of its update
		vsched.GoTagged("client", func() {
			defer wg.Done()
			plain = w.Do(ReqSpec{ID: "plain", Host: "a.example.com", Path: "/api/x?q=1"})
		})
		vsched.GoTagged("client", func() {
			defer wg.Done()
			secure = w.Do(ReqSpec{ID: "secure", Host: "a.example.com", Path: "/api/y", TLS: true})
		})
		vsched.GoTagged("cmd", func() {
			defer wg.Done()
			ch.apply(parseOp(c.cmd))
		})
		wg.Wait()
		w.S.SetWindow(false)
	}
	sc.Check = func(w *World) []Violation {
		var vs []Violation
		for _, n := range w.Notes {
			vs = append(vs, Violation{"C16", "setup", n})
		}
		if len(vs) > 0 || plain == nil || secure == nil || !plain.Done || !secure.Done {
			return vs
		}
		redeploysSub := strings.HasPrefix(c.cmd, "deploy sa ")
		forwardedBySub := func(r *ReqObs) bool {
			if r.Status == 503 && strings.Contains(lastSites(r.Sites, 2), "claimTarget") {
				// the policy let the request through; it was then refused by a target that the overlapping redeploy is
				// draining (the open C02 finding), which is not a matter of TLS policy
				return true
			}
			return r.Status == 200 && r.ServedBy() != "" && (r.ServedBy() == subTarget || redeploysSub)
		}
		if c.root == "tls" {
			if plain.Status != 301 || plain.Header.Get("Location") != "https://a.example.com/api/x?q=1" {
				vs = append(vs, Violation{"C16", "tls-policy-lapse plain-request-not-redirected", fmt.Sprintf("while %q ran, a plain-HTTP request to the sub-path service of a TLS+redirect host got %s (Location %q)", c.cmd, plain.Summary(), plain.Header.Get("Location"))})
			}
		} else if !forwardedBySub(plain) {
			vs = append(vs, Violation{"C16", "tls-policy-lapse plain-request-not-forwarded", fmt.Sprintf("while %q ran, a plain-HTTP request to the sub-path service of a TLS host without redirect got %s", c.cmd, plain.Summary())})
		}
		if !forwardedBySub(secure) {
			vs = append(vs, Violation{"C16", "tls-policy-lapse tls-request-refused", fmt.Sprintf("while %q ran, a TLS request to the sub-path service of a TLS host got %s", c.cmd, secure.Summary())})
		}
		return vs
	}
	return sc
}

// c16CertScenario: TLS handshakes for a name race with a command that unbinds the name from TLS (remove, redeploy
// without TLS, redeploy onto another host); after the command returned no certificate is served for it.
func c16CertScenario(cmd string) *Scenario {
	sc := &Scenario{Name: fmt.Sprintf("C16-S handshakes || %q", cmd), Horizon: 60 * time.Second}
	var after []error
	var during []error
	sc.Run = func(w *World) {
		after, during = nil, nil
		h := &HWorld{World: w, M: newModel(), allNames: map[string]bool{}}
		h.apply(parseOp("deploy ra h=a.example.com p=/ o=tls"))
		h.apply(parseOp("deploy rb h=b.example.com p=/ o=tls"))
		time.Sleep(100 * time.Millisecond)
		ch := &HWorld{World: w, M: h.M.clone(), allNames: map[string]bool{}, opNo: 50}
		var wg vsync.WaitGroup
		w.S.SetWindow(true)
		wg.Add(3)
		for i := 0; i < 2; i++ {
			vsched.GoTagged("client", func() {
				defer wg.Done()
				_, err := w.Router.GetCertificate(&tls.ClientHelloInfo{ServerName: "a.example.com"})
				w.mu.Lock()
				during = append(during, err)
				w.mu.Unlock()
			})
		}
		vsched.GoTagged("cmd", func() {
			defer wg.Done()
			ch.apply(parseOp(cmd))
		})
		wg.Wait()
		w.S.SetWindow(false)
		for i := 0; i < 2; i++ {
			_, err := w.Router.GetCertificate(&tls.ClientHelloInfo{ServerName: "a.example.com"})
			after = append(after, err)
		}
		if _, err := w.Router.GetCertificate(&tls.ClientHelloInfo{ServerName: "b.example.com"}); err != nil {
			w.Note("certificate for the untouched TLS service refused: %v", err)
		}
	}
	sc.Check = func(w *World) []Violation {
		var vs []Violation
		for _, n := range w.Notes {
			vs = append(vs, Violation{"C16", "certificate-refused-for-bound-tls-name", n})
		}
		for _, err := range after {
			if err == nil {
				vs = append(vs, Violation{"C16", "certificate-served-for-unbound-or-non-tls-name", fmt.Sprintf("after %q returned (it raced with handshakes for a.example.com) a handshake for that name was still given a certificate", cmd)})
				break
			}
		}
		return vs
	}
	return sc
}

func c16Configs() []c16cfg {
	var cfgs []c16cfg
	for _, root := range []string{"tls", "tlsnr"} {
		for _, cmd := range []string{
			"deploy rc h=c.example.com p=/ o=plain", // unrelated new service
			"deploy rb h=b.example.com p=/ o=tls",   // unrelated redeploy
			"remove rb",
			"deploy sa h=a.example.com p=/api o=plain", // redeploy of the sub-path service itself
			"deploy ra h=a.example.com p=/ o=" + root,  // redeploy of the root service with the same flags
			"deploy sx h=a.example.com p=/other o=plain",
		} {
			cfgs = append(cfgs, c16cfg{root, cmd})
		}
	}
	return cfgs
}

func checkC16(t *testing.T, job *Job, res *Result) {
	tier := job.Tier
	if job.Replay != nil {
		tier = job.Replay.Tier
	}
	spec := c16Spec(tier)
	res.Bounds = fmt.Sprintf("every history of up to %d successful commands", spec.Depth)
	res.Rule = "histories over root services of a.example.com / b.example.com / *.example.com with TLS {off, static+redirect, static without redirect}, sub-path services with their own flags set differently (one host, two hosts, default host), remove, restart; after every history: scheme {http, https} x Host {bound, :80, :8443, wildcard-matched, unbound} x paths incl. //evil.example/x and %2F with queries; oracle: effective policy = that of the root-path service of the request host computed from the SET of services (301 with exact Location / 503 / forwarded), GetCertificate(SNI) for 7 names; plus the automatic-TLS boundary (host policy = bound hosts; wildcard refused as a first deploy and as a redeploy of a plain, static-certificate or automatic-TLS service)"
	if job.Replay == nil || job.Replay.Engine == "H" {
		exploreH(t, job, res, spec)
	}
	if job.Replay == nil || job.Replay.Engine == "E" {
		cases := []ECase{{Name: "automatic TLS boundary", Class: "acme", Run: c16Acme}}
		for _, prior := range []string{"absent", "plain", "static", "auto", "auto-cache"} {
			for i, hosts := range [][]string{{"*.wild.acme.example.com"}, {"z.acme.example.com", "*.wild.acme.example.com"}} {
				cases = append(cases, ECase{Name: fmt.Sprintf("automatic TLS on a wildcard host, service previously %s, hosts %d", prior, i), Class: "acme-wildcard " + prior, Run: c16AcmeWildcardFrom(prior, hosts)})
			}
		}
		runE(t, job, res, &ESpec{Prop: "C16", Cases: cases, Batch: 1})
	}
	if job.Replay == nil || job.Replay.Engine == "S" {
		var scs []*Scenario
		for _, c := range c16Configs() {
			scs = append(scs, c16Scenario(c))
		}
		for _, cmd := range []string{"remove ra", "deploy ra h=a.example.com p=/ o=plain", "deploy ra h=c.example.com p=/ o=tls"} {
			scs = append(scs, c16CertScenario(cmd))
		}
		b := Bounds{D: 2, S: 0}
		if tier == "thorough" {
			b = Bounds{D: 3, S: 0}
		}
		runS(t, job, res, "C16", withReversed(scs), b, 0)
	}
	res.Engine = "H+E+S"
	res.Rule += "; engine S: a sub-path service under a TLS root (with and without redirect) while a command that leaves the host's policy unchanged runs (unrelated deploy/redeploy/remove, redeploy of the sub-path or root service with the same flags, another sub-path service): a plain-HTTP and a TLS request at every schedule within the bounds must see the root's policy; TLS handshakes for a name racing with a command that unbinds it from TLS: no certificate afterwards"
	_ = strings.TrimSpace
}
