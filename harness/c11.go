//go:build verif

package server

import (
	"fmt"
	"strings"
	"testing"
	"time"

	"github.com/basecamp/kamal-proxy/internal/verif/vsched"
)

func init() { checks["C11"] = checkC11 }

var c11Alphabet = []string{
	"deploy s1 h=a.example.com p=/",
	"deploy s1 h=a.example.com,b.example.com p=/,/api n=2 o=tls",
	"deploy s1 h=a.example.com p=/ o=tlsnr",
	"deploy s1 h=a.example.com p=/api n=2 o=strip0",
	"deploy s1 h=a.example.com p=/api o=plain",
	"deploy s1 h=*.example.com p=/ o=buf",
	"deploy s1 h=a.example.com p=/ o=tt",
	"deploy s1 h=a.example.com p=/ o=hc",
	"deploy s1 h=a.example.com p=/ o=fwd",
	"deploy s1 h=a.example.com p=/ o=pages",
	"deploy s2 h=- p=/",
	"deploy s2 h=a.example.com p=/api/x n=2",
	"rdeploy s1 n=1",
	"rdeploy s1 n=2",
	"rset s1 pct=100 allow=-",
	"rset s1 pct=0 allow=v",
	"rstop s1",
	"pause s1 max=20000",
	"pause s1 max=7000",
	"pause s1 max=0", // nothing is held: every request is answered 504 at once
	"stop s1 msg=m2",
	"stop s1 msg=",
	"resume s1",
	"remove s1",
	"restart",
}

func c11Spec(tier string) *HSpec {
	depth := 4
	if tier == "thorough" {
		depth = 5
	}
	spec := &HSpec{
		Prop: "C11", Name: "C11", Depth: depth,
		Obs: ObsSpec{
			Hosts: []string{"a.example.com", "b.example.com:8080", "x.example.com", "other.org"}, Paths: []string{"/", "/api", "/api/x/y", "/up", "/health2"},
			Cookies: []string{"", "v", "w"}, TLS: []bool{false, true}, Settle: true,
		},
		Clauses: map[string]bool{"routing": true, "tls-policy": true, "gate": true, "target-set": true, "strip": true, "list": true, "probed": true, "stop-message": true},
	}
	spec.Alphabet = func(m *Model, d int) []string {
		var res []string
		for _, a := range c11Alphabet {
			h := &HWorld{World: &World{}, M: m.clone(), allNames: map[string]bool{}}
			if len(h.applyModel(parseOp(a))) > 0 {
				continue // failing commands are C06's
			}
			if a == "restart" && len(m.Services) == 0 && d == 0 {
				continue // nothing has been written yet; a restart of an emptied proxy (after removes) is explored
			}
			if a != "restart" && !strings.HasPrefix(a, "deploy") && !strings.HasPrefix(a, "rdeploy") && h.M.key() == m.key() {
				continue // no-op in the model (resume of a running service ...)
			}
			res = append(res, a)
		}
		return res
	}
	spec.EvalOnly = func(hist []string, failed bool) bool {
		for _, h := range hist {
			if h == "restart" {
				return true
			}
		}
		return false
	}
	spec.Extra = c11Extra
	return spec
}

// c11Extra checks the settings the routing model does not carry (buffering
// limit, target timeout, health-check path, header forwarding) and drills the
// pause gate of a restored service.
func c11Extra(h *HWorld, op HOp, o *HObs) []Violation {
	var vs []Violation
	add := func(sig, d string) { vs = append(vs, Violation{"C11", sig, d}) }
	evs := h.Net.Events()
	for _, n := range sortedKeys(h.M.Services) {
		s := h.M.Services[n]
		host := s.Hosts[0]
		if host == "" {
			host = "other.org"
		}
		host = strings.Replace(host, "*", "x", 1)
		path := s.Paths[0]
		if name, _ := h.M.route(host, path); name != n {
			continue // shadowed
		}
		// use the scheme under which the model forwards the request
		tlsOn := false
		if w0, _, _ := h.predictCell(Cell{Host: host, Path: path}); strings.HasPrefix(w0, "301") {
			tlsOn = true
		} else if w0 == "503-tls" {
			continue
		}
		// health path actually probed
		wantHP := vHealthPath
		if s.Opt == "hc" {
			wantHP = "/health2"
		}
		for i := len(evs) - 1; i >= 0; i-- {
			e := evs[i]
			if e.Kind == "probe" && len(s.Active) > 0 && e.Target == s.Active[0] {
				if e.URI != wantHP {
					add("health-check-path", fmt.Sprintf("service %s (opt %s) probes %s on %q, expected %q", n, s.Opt, e.Target, e.URI, wantHP))
				}
				break
			}
		}
		if s.Gate != "running" {
			continue
		}
		// buffering limit
		body := []byte(strings.Repeat("b", 40))
		r := h.Do(ReqSpec{ID: "x-buf-" + n, Method: "POST", Host: host, Path: path, TLS: tlsOn, Body: body})
		wantStatus := 200
		if s.Opt == "buf" {
			wantStatus = 413
		}
		if r.Status != wantStatus {
			add(fmt.Sprintf("request-body-limit want=%d got=%d", wantStatus, r.Status), fmt.Sprintf("service %s opt %s: 40-byte POST answered %d", n, s.Opt, r.Status))
		}
		// forwarded headers
		r = h.Do(ReqSpec{ID: "x-fwd-" + n, Host: host, Path: path, TLS: tlsOn, Header: [][2]string{{"X-Forwarded-For", "1.2.3.4"}}})
		for _, e := range h.Net.Events() {
			if e.Kind == "req" && e.ReqID == "x-fwd-"+n {
				got := e.Header.Get("X-Forwarded-For")
				want := "192.0.2.7"
				if s.Opt == "fwd" {
					want = "1.2.3.4, 192.0.2.7"
				}
				if got != want {
					add("forward-headers", fmt.Sprintf("service %s opt %s: target saw X-Forwarded-For %q, expected %q", n, s.Opt, got, want))
				}
			}
		}
		// target timeout
		if s.Opt == "tt" {
			t0 := h.Now()
			r = h.Do(ReqSpec{ID: "x-tt-" + n, Host: host, Path: path, TLS: tlsOn, Plan: "hang"})
			if r.Status != 504 || r.End-t0 != 1700*time.Millisecond {
				add("target-timeout", fmt.Sprintf("service %s: hanging target answered %d after %v, expected 504 after 1.7s", n, r.Status, r.End-t0))
			}
		}
	}
	// pause drill on one paused service: held -> released by resume; held -> refused by stop
	for _, n := range sortedKeys(h.M.Services) {
		s := h.M.Services[n]
		if s.Gate != "paused" || s.MaxPause <= 0 {
			continue
		}
		host := strings.Replace(s.Hosts[0], "*", "x", 1)
		if host == "" {
			host = "other.org"
		}
		path := s.Paths[0]
		if name, _ := h.M.route(host, path); name != n {
			continue
		}
		want, _, _ := h.predictCell(Cell{Host: host, Path: path})
		tlsOn := false
		if strings.HasPrefix(want, "301") {
			tlsOn = true
		} else if want != "held" {
			continue
		}
		var a, b *ReqObs
		vsched.GoTagged("client", func() { a = h.Do(ReqSpec{ID: "drill-a", Host: host, Path: path, TLS: tlsOn}) })
		time.Sleep(20 * time.Millisecond)
		if a != nil {
			add("gate paused-service-does-not-hold", fmt.Sprintf("service %s is paused but a request was answered %s", n, a.Summary()))
			break
		}
		rc := h.Resume(n)
		time.Sleep(20 * time.Millisecond)
		if rc.Panic != nil || rc.Err != nil {
			add("resume-of-paused-service-failed", fmt.Sprintf("resume %s: err=%v panic=%v", n, rc.Err, rc.Panic))
			break
		}
		if a == nil || a.Status != 200 || a.ServedBy() == "" {
			sum := "still held"
			if a != nil {
				sum = a.Summary()
			}
			add("held-request-not-released-by-resume", fmt.Sprintf("service %s: request held by the restored pause: %s", n, sum))
			break
		}
		pc := h.Pause(n, vD, 9*time.Second)
		if pc.Err != nil || pc.Panic != nil {
			add("pause-failed", fmt.Sprint(pc.Err, pc.Panic))
			break
		}
		vsched.GoTagged("client", func() { b = h.Do(ReqSpec{ID: "drill-b", Host: host, Path: path, TLS: tlsOn}) })
		time.Sleep(20 * time.Millisecond)
		sc := h.Stop(n, vD, "drill-message")
		time.Sleep(20 * time.Millisecond)
		if sc.Panic != nil || sc.Err != nil {
			add("stop-of-paused-service-failed", fmt.Sprintf("stop %s: err=%v panic=%v", n, sc.Err, sc.Panic))
			break
		}
		if b == nil || b.Status != 503 || !strings.Contains(string(b.Body), "drill-message") {
			sum := "still held"
			if b != nil {
				sum = b.Summary()
			}
			add("held-request-not-refused-by-stop", fmt.Sprintf("service %s: %s", n, sum))
		}
		break
	}
	return vs
}

func checkC11(t *testing.T, job *Job, res *Result) {
	tier := job.Tier
	if job.Replay != nil {
		tier = job.Replay.Tier
	}
	spec := c11Spec(tier)
	res.Bounds = fmt.Sprintf("every history of up to %d successful commands containing at least one restart", spec.Depth)
	res.Rule = "alphabet: deploys with option variants (multi-host, multi-path, multi-target, static TLS with and without redirect, strip off, buffering limit, target timeout, health-check path, header forwarding, custom pages), second service incl. sub-path of the first one's host, rollout deploy/set/stop, pause (two limits), stop (two messages), resume, remove, restart; restart is a transition and the search continues after it; oracle: the reference model is unchanged by restart, so every cell of the probe matrix (hosts x paths x cookie x scheme), list, probed targets, option probes (413 limit, target timeout, health path, forwarded headers) and the pause drill (held, released by resume, refused by stop) must equal the model after every history"
	exploreH(t, job, res, spec)
}
