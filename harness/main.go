//go:build verif

package server

import (
	"encoding/binary"
	"encoding/json"
	"fmt"
	"os"
	"strings"
	"runtime"
	"sort"
	"testing"
	"time"

	"github.com/basecamp/kamal-proxy/internal/verif/vsched"
)

// Job is the work order for one worker process (env VERIF_JOB = path to JSON).
type Job struct {
	Check   string            `json:"check"`
	Tier    string            `json:"tier"`
	Shard   int               `json:"shard"`
	NShards int               `json:"nshards"`
	Out     string            `json:"out"`
	Seed    int64             `json:"seed"`
	BudgetS int               `json:"budget_s"`
	Replay  *ReplaySpec       `json:"replay,omitempty"`
	Opts    map[string]string `json:"opts,omitempty"`
}

type ReplaySpec struct {
	Engine   string       `json:"engine"`
	Check    string       `json:"check"`
	Tier     string       `json:"tier"`
	Config   int          `json:"config"`
	Scenario string       `json:"scenario"`
	Devs     []vsched.Dev `json:"devs"`
	History  []string     `json:"history,omitempty"`
	Input    string       `json:"input,omitempty"`
}

// Result is what a worker writes.
type Result struct {
	Check       string         `json:"check"`
	Tier        string         `json:"tier"`
	Shard       int            `json:"shard"`
	Engine      string         `json:"engine"`
	S           *SStats        `json:"s,omitempty"`
	Gen         *GenStats      `json:"gen,omitempty"`
	WallS       float64        `json:"wall_s"`
	Bounds      string         `json:"bounds"`
	Rule        string         `json:"rule"`
	Assumptions []string       `json:"assumptions,omitempty"`
	Extra       map[string]any `json:"extra,omitempty"`
}

// GenStats is the result of engines H, E and F.
type GenStats struct {
	Evaluations  int                 `json:"evaluations"`
	Distinct     int                 `json:"distinct_nontrivial"`
	States       int                 `json:"states"`
	Transitions  int                 `json:"transitions"`
	Depth        int                 `json:"depth"`
	Capped       bool                `json:"capped"`
	CapNote      string              `json:"cap_note,omitempty"`
	Found        []*Found            `json:"found"`
	Infra        []string            `json:"infra,omitempty"`
	Samples      []any               `json:"samples"`
	Histogram    map[string]int      `json:"histogram,omitempty"`
	DistinctKeys map[string]struct{} `json:"-"`
	DistinctList []string            `json:"distinct_keys,omitempty"`
	StateSet     map[string]struct{} `json:"-"`
	StateList    []string            `json:"state_keys,omitempty"`
}

type checkFunc func(t *testing.T, job *Job, res *Result)

var checks = map[string]checkFunc{}

func TestVerif(t *testing.T) {
	path := os.Getenv("VERIF_JOB")
	if path == "" {
		t.Skip("no VERIF_JOB")
	}
	b, err := os.ReadFile(path)
	if err != nil {
		t.Fatal(err)
	}
	var job Job
	if err := json.Unmarshal(b, &job); err != nil {
		t.Fatal(err)
	}
	runtime.GOMAXPROCS(1)
	start := time.Now()
	res := &Result{Check: job.Check, Tier: job.Tier, Shard: job.Shard, Extra: map[string]any{}}
	name := job.Check
	if job.Replay != nil {
		name = job.Replay.Check
	}
	f := checks[name]
	if f == nil {
		t.Fatalf("unknown check %q", name)
	}
	f(t, &job, res)
	res.WallS = time.Since(start).Seconds()
	if res.S != nil {
		// state hashes go to a side file (binary, 8 bytes each)
		hs := make([]uint64, 0, len(res.S.States))
		for h := range res.S.States {
			hs = append(hs, h)
		}
		sort.Slice(hs, func(i, j int) bool { return hs[i] < hs[j] })
		buf := make([]byte, 8*len(hs))
		for i, h := range hs {
			binary.LittleEndian.PutUint64(buf[8*i:], h)
		}
		os.WriteFile(job.Out+".states", buf, 0o644)
		// outcomes too
		ob, _ := json.Marshal(res.S.Outcomes)
		os.WriteFile(job.Out+".outcomes", ob, 0o644)
	}
	if res.Gen != nil && res.Gen.DistinctKeys != nil {
		for k := range res.Gen.DistinctKeys {
			res.Gen.DistinctList = append(res.Gen.DistinctList, k)
		}
		sort.Strings(res.Gen.DistinctList)
	}
	if res.Gen != nil && res.Gen.StateSet != nil {
		for k := range res.Gen.StateSet {
			res.Gen.StateList = append(res.Gen.StateList, k)
		}
		sort.Strings(res.Gen.StateList)
	}
	out, err := json.MarshalIndent(res, "", " ")
	if err != nil {
		t.Fatal(err)
	}
	if err := os.WriteFile(job.Out, out, 0o644); err != nil {
		t.Fatal(err)
	}
}

// runS is the common driver of engine-S checks.
func runS(t *testing.T, job *Job, res *Result, prop string, scs []*Scenario, b Bounds, maxExecPerConfig int) {
	res.Engine = "S"
	res.Bounds = b.String()
	// development aids (never set by the registered commands): restrict to scenarios whose name contains a string,
	// override the bounds
	if f := os.Getenv("VERIF_ONLY"); f != "" {
		var keep []*Scenario
		for _, sc := range scs {
			if strings.Contains(sc.Name, f) {
				keep = append(keep, sc)
			}
		}
		scs = keep
	}
	if f := os.Getenv("VERIF_BOUNDS"); f != "" {
		var ob Bounds
		fmt.Sscanf(f, "%d,%d,%d", &ob.D, &ob.S, &ob.Total)
		b = ob
		for _, sc := range scs {
			sc.Bounds = nil
		}
		res.Bounds = b.String()
	}
	if job.Replay != nil {
		sc := scs[job.Replay.Config]
		r := runScenario(t, prop, sc, job.Replay.Devs, true)
		fmt.Printf("REPLAY scenario=%s devs=%v\n", sc.Name, job.Replay.Devs)
		for _, l := range traceStrings(r.Trace) {
			fmt.Println(l)
		}
		fmt.Println("OUTCOME", r.Outcome)
		if r.World != nil {
			for _, e := range r.World.Net.Events() {
				fmt.Printf("  ev %3d %9v %-16s %-8s st=%d id=%s %s\n", e.Seq, e.At, e.Kind, e.Target, e.Status, e.ReqID, e.Note)
			}
		}
		st := &SStats{Found: []*Found{}}
		for _, v := range r.Violations {
			fmt.Printf("VIOLATED %s %s: %s\n", v.Property, v.Signature, v.Detail)
			st.Found = append(st.Found, &Found{Violation: v, Scenario: sc.Name, Config: job.Replay.Config, Devs: job.Replay.Devs})
		}
		if r.Infra != "" {
			st.Infra = append(st.Infra, r.Infra)
		}
		st.Executions = 1
		st.States = r.States
		st.Outcomes = map[string]int{r.Outcome: 1}
		res.S = st
		return
	}
	e := newExplorer(t, prop, b, job)
	e.maxExec = maxExecPerConfig
	// VERIF_SEED rotates the order of configurations (a capped run then covers a different slice)
	n := len(scs)
	rot := 0
	if n > 0 {
		rot = int(((job.Seed % int64(n)) + int64(n)) % int64(n))
	}
	for k := 0; k < n; k++ {
		i := (k + rot) % n
		if time.Now().After(e.deadline) {
			e.stats.Capped = true
			e.stats.CapNote = "wall-clock budget reached before configuration " + scs[i].Name
			break
		}
		e.exploreConfig(i, scs[i])
	}
	res.S = e.finish(scs)
}
