//go:build verif

package server

import (
	"errors"
	"fmt"
	"strings"
	"testing"
	"time"

	"github.com/basecamp/kamal-proxy/internal/verif/memnet"
	"github.com/basecamp/kamal-proxy/internal/verif/vsched"
	"github.com/basecamp/kamal-proxy/internal/verif/vsync"
)

func init() { checks["C01"] = checkC01 }

// probe scripts for a new target
type pscript struct {
	name  string
	steps []memnet.ProbeStep
	// firstOK is the virtual offset (from command start) of the first 2xx
	// answer, or -1 if it never answers 2xx
	firstOK time.Duration
}

func failStep(kind string) memnet.ProbeStep {
	switch kind {
	case "refuse":
		return pRefuse()
	case "500":
		return p500()
	case "slow":
		return pSlow()
	case "hang":
		return pHang()
	case "301":
		return pStatus(301)
	case "404":
		return pStatus(404)
	}
	panic(kind)
}

func c01Scripts(tier string) []pscript {
	var res []pscript
	res = append(res, pscript{"ok", []memnet.ProbeStep{pOK()}, 0})
	kinds := []string{"refuse", "500", "slow"}
	for _, k := range []int{1, 2} {
		for _, kind := range kinds {
			if tier == "quick" && k == 2 && kind != "500" {
				continue
			}
			var st []memnet.ProbeStep
			for i := 0; i < k; i++ {
				st = append(st, failStep(kind))
			}
			st = append(st, pOK())
			res = append(res, pscript{fmt.Sprintf("%dx%s-then-ok", k, kind), st, time.Duration(k) * vI})
		}
	}
	never := []string{"refuse", "500", "slow", "301"}
	if tier != "quick" {
		never = append(never, "hang", "404")
	}
	for _, kind := range never {
		res = append(res, pscript{"never-" + kind, []memnet.ProbeStep{failStep(kind)}, -1})
	}
	// first 2xx shortly before / after the deploy timeout (T = 5.3s, probes at 0..5s)
	late := func(d time.Duration) []memnet.ProbeStep {
		return []memnet.ProbeStep{p500(), p500(), p500(), p500(), p500(), pOKAfter(d)}
	}
	res = append(res, pscript{"ok-at-T-0.2", late(100 * time.Millisecond), 5100 * time.Millisecond})
	res = append(res, pscript{"ok-at-T+0.1", late(400 * time.Millisecond), 5400 * time.Millisecond})
	res = append(res, pscript{"ok-then-flap", []memnet.ProbeStep{pOK(), p500(), pOK(), p500()}, 0})
	return res
}

type c01cfg struct {
	cmd     string // deploy | rollout
	pre     string // absent | active | rollout
	scripts []pscript
	clients int
	shortT  bool // deploy timeout 1.3s, drain timeout 4.7s (instead of 5.3s / 2.1s): the two must not be confused
	longT   bool // deploy timeout 61.3s (longer than a minute)
	other   bool // while the command waits, another service is deployed with a probe timeout three times as long
}

func (c c01cfg) timeouts() (time.Duration, time.Duration) {
	if c.longT {
		return 61300 * time.Millisecond, vD
	}
	if c.shortT {
		return 1300 * time.Millisecond, 4700 * time.Millisecond
	}
	return vT, vD
}

func (c c01cfg) String() string {
	var n []string
	for _, s := range c.scripts {
		n = append(n, s.name)
	}
	r := fmt.Sprintf("cmd=%s pre=%s targets=[%s] clients=%d", c.cmd, c.pre, strings.Join(n, ","), c.clients)
	if c.shortT {
		r += " T=1.3s D=4.7s"
	}
	if c.longT {
		r += " T=61.3s"
	}
	if c.other {
		r += " other-deploy-with-longer-probe-timeout"
	}
	return r
}

func c01Configs(tier string) []c01cfg {
	scripts := c01Scripts(tier)
	var cfgs []c01cfg
	type cp struct{ cmd, pre string }
	cps := []cp{{"deploy", "absent"}, {"deploy", "active"}, {"rollout", "rollout"}}
	if tier != "quick" {
		cps = append(cps, cp{"deploy", "rollout"}, cp{"rollout", "active"})
	}
	for _, x := range cps {
		// n = 1: every script
		for _, s := range scripts {
			cfgs = append(cfgs, c01cfg{x.cmd, x.pre, []pscript{s}, 1, false, false, false})
			// deploy timeout shorter than the drain timeout: scripts turning healthy between the two
			if s.firstOK >= 0 && s.firstOK <= 2*vI {
				cfgs = append(cfgs, c01cfg{x.cmd, x.pre, []pscript{s}, 1, true, false, false})
			}
		}
		// n = 2: full product in thorough; in quick "ok" x every script and the
		// bad x bad diagonal
		for i, a := range scripts {
			for j, b := range scripts {
				// quick: "ok" x every script, the diagonal, and pairs where one target turns healthy late
				// but in time while the other one does so just after the deploy timeout (a per-target
				// timeout would let the second one through)
				lateOK := func(p pscript) bool { return p.firstOK > 0 && p.firstOK < vT-time.Second }
				justAfter := func(p pscript) bool { return p.firstOK > vT }
				if tier == "quick" && !(i == 0 || j == 0 || i == j || (lateOK(a) && justAfter(b)) || (lateOK(b) && justAfter(a))) {
					continue
				}
				if tier == "quick" && x.pre == "rollout" && !(i == 0 || j == 0) {
					continue
				}
				cfgs = append(cfgs, c01cfg{x.cmd, x.pre, []pscript{a, b}, 1, false, false, false})
			}
		}
		// n = 3: exactly one bad target in each position, and all ok
		if tier != "quick" || x.pre == "active" {
			ok := scripts[0]
			cfgs = append(cfgs, c01cfg{x.cmd, x.pre, []pscript{ok, ok, ok}, 1, false, false, false})
			for _, s := range scripts[1:] {
				if tier == "quick" && !(strings.HasPrefix(s.name, "never-500") || s.name == "1x500-then-ok" || s.name == "ok-at-T+0.1") {
					continue
				}
				for pos := 0; pos < 3; pos++ {
					sc := []pscript{ok, ok, ok}
					sc[pos] = s
					cfgs = append(cfgs, c01cfg{x.cmd, x.pre, sc, 1, false, false, false})
				}
			}
		}
	}
	// a deploy timeout longer than a minute: never healthy, healthy just before and just after it
	lateAt := func(name string, nFail int, d time.Duration) pscript {
		var st []memnet.ProbeStep
		for i := 0; i < nFail; i++ {
			st = append(st, p500())
		}
		st = append(st, pOKAfter(d))
		return pscript{name, st, time.Duration(nFail)*vI + d}
	}
	for _, s := range []pscript{scripts[0], {"never-500", []memnet.ProbeStep{p500()}, -1}, lateAt("ok-at-61.1", 61, 100*time.Millisecond), lateAt("ok-at-61.4", 61, 400*time.Millisecond)} {
		cfgs = append(cfgs, c01cfg{cmd: "deploy", pre: "active", scripts: []pscript{s}, clients: 1, longT: true})
		cfgs = append(cfgs, c01cfg{cmd: "rollout", pre: "rollout", scripts: []pscript{s}, clients: 1, longT: true})
	}
	// another service, with a longer probe timeout, is deployed while the command waits for targets that answer 2xx
	// more slowly than their own probe timeout (so every probe of theirs fails)
	for _, s := range scripts {
		if strings.Contains(s.name, "slow") {
			cfgs = append(cfgs, c01cfg{cmd: "deploy", pre: "absent", scripts: []pscript{s}, clients: 1, other: true})
			cfgs = append(cfgs, c01cfg{cmd: "rollout", pre: "rollout", scripts: []pscript{s}, clients: 1, other: true})
		}
	}
	if tier != "quick" {
		n := len(cfgs)
		for i := 0; i < n; i += 3 {
			c := cfgs[i]
			c.clients = 2
			cfgs = append(cfgs, c)
		}
	}
	return cfgs
}

func c01Scenario(c c01cfg) *Scenario {
	sc := &Scenario{Name: "C01 " + c.String(), Horizon: 120 * time.Second}
	if c.longT {
		sc.Horizon = 200 * time.Second
	}
	const host = "a.example.com"
	var newNames []string
	for i := range c.scripts {
		newNames = append(newNames, fmt.Sprintf("n%c:80", 'a'+i))
	}
	isNew := map[string]bool{}
	for _, n := range newNames {
		isNew[n] = true
	}
	sc.Run = func(w *World) {
		for i, s := range c.scripts {
			w.AddTarget(newNames[i], s.steps...)
		}
		if c.pre != "absent" {
			w.AddTarget("oa:80")
			if r := w.Deploy(deployArgs("s1", []string{"oa:80"}, []string{host}, nil)); r.Err != nil {
				w.Note("setup: %v", r.Err)
				return
			}
		}
		if c.pre == "rollout" {
			w.AddTarget("ra:80")
			if r := w.RolloutDeploy("s1", []string{"ra:80"}); r.Err != nil {
				w.Note("setup: %v", r.Err)
				return
			}
			if r := w.RolloutSet("s1", 0, []string{"v"}); r.Err != nil {
				w.Note("setup: %v", r.Err)
				return
			}
		}
		time.Sleep(vI / 2)
		var wg vsync.WaitGroup
		t0 := w.Now()
		w.S.SetWindow(true)
		wg.Add(1)
		vsched.GoTagged("cmd", func() {
			defer wg.Done()
			T, D := c.timeouts()
			if c.cmd == "deploy" {
				a := deployArgs("s1", newNames, []string{host}, nil)
				a.DeployTimeout, a.DrainTimeout = T, D
				w.Deploy(a)
			} else {
				w.runCmd("rollout-deploy", fmt.Sprintf("s1 targets=%v", newNames), func() error {
					var reply bool
					return w.Cmd.RolloutDeploy(RolloutDeployArgs{Service: "s1", TargetURLs: newNames, DeployTimeout: T, DrainTimeout: D}, &reply)
				})
			}
			// right after the return, on the same thread
			w.Do(ReqSpec{ID: "post-plain", Host: host})
			w.Do(ReqSpec{ID: "post-cookie", Host: host, Cookie: "kamal-rollout=v"})
		})
		if c.other {
			wg.Add(1)
			w.AddTarget("za:80")
			vsched.GoTagged("cmd", func() {
				defer wg.Done()
				time.Sleep(300 * time.Millisecond)
				a := deployArgs("s9", []string{"za:80"}, []string{"z.example.com"}, nil)
				a.TargetOptions.HealthCheckConfig.Timeout = 3 * vProbeTO
				w.Deploy(a)
			})
		}
		for k := 0; k < c.clients; k++ {
			wg.Add(1)
			k := k
			vsched.GoTagged("client", func() {
				defer wg.Done()
				// requests spread over the life of the command
				offs := []time.Duration{0, 1500 * time.Millisecond, 3900 * time.Millisecond}
				if k == 1 {
					offs = []time.Duration{700 * time.Millisecond, 4750 * time.Millisecond}
				}
				for j, o := range offs {
					if o > 0 {
						time.Sleep(t0 + o - w.Now())
					}
					ck := ""
					if (j+k)%2 == 1 {
						ck = "kamal-rollout=v"
					}
					w.Do(ReqSpec{ID: fmt.Sprintf("c%d.%d", k, j), Host: host, Cookie: ck})
				}
			})
		}
		wg.Wait()
		w.S.SetWindow(false)
		time.Sleep(4 * vI)
		w.Do(ReqSpec{ID: "late-plain", Host: host})
		w.Do(ReqSpec{ID: "late-cookie", Host: host, Cookie: "kamal-rollout=v"})
	}
	sc.Check = func(w *World) []Violation {
		var vs []Violation
		for _, n := range w.Notes {
			vs = append(vs, Violation{"C01", "setup", n})
		}
		if len(vs) > 0 {
			return vs
		}
		evs := w.Net.Events()
		var cmd *CmdObs
		for _, x := range w.Cmds {
			if x.Thread != "m" && !strings.Contains(x.Args, "s9") {
				cmd = x
			}
		}
		if cmd == nil || !cmd.Done {
			return vs
		}
		// per new target: sequence number and time of the first 2xx probe answer
		firstOKSeq := map[string]int{}
		firstOKAt := map[string]time.Duration{}
		// a probe answered later than the probe timeout is a failed probe, whatever its status
		probeSentAt := map[int]time.Duration{}
		for _, e := range evs {
			if e.Kind == "probe" {
				probeSentAt[e.Conn] = e.At
			}
		}
		for _, e := range evs {
			if e.Kind == "probe-answer" && e.Status >= 200 && e.Status <= 299 && isNew[e.Target] && e.Seq > cmd.StartSeq {
				if sent, ok := probeSentAt[e.Conn]; ok && e.At-sent >= vProbeTO {
					continue
				}
				if _, ok := firstOKSeq[e.Target]; !ok {
					firstOKSeq[e.Target] = e.Seq
					firstOKAt[e.Target] = e.At
				}
			}
		}
		// O1
		for _, e := range evs {
			if e.Kind == "req" && isNew[e.Target] {
				for _, n := range newNames {
					s, ok := firstOKSeq[n]
					if !ok || s > e.Seq {
						vs = append(vs, Violation{"C01", "client-request-before-all-new-targets-healthy", fmt.Sprintf("request %s reached %s at %v (seq %d) but %s had not answered a 2xx probe yet", e.ReqID, e.Target, e.At, e.Seq, n)})
						break
					}
				}
			}
		}
		// O2
		if cmd.Err == nil {
			for _, n := range newNames {
				s, ok := firstOKSeq[n]
				if !ok || s > cmd.EndSeq {
					vs = append(vs, Violation{"C01", "success-without-2xx-probe", fmt.Sprintf("%s returned nil at %v but %s had not answered a 2xx probe", cmd.Name, cmd.End, n)})
				}
			}
		}
		// O3 (elapsed time is only meaningful when virtual time did not pass while threads were runnable)
		stalled := w.HadStall()
		for _, n := range newNames {
			if stalled {
				break
			}
			at, ok := firstOKAt[n]
			cT, _ := c.timeouts()
			if (!ok || at >= cmd.Start+cT) && (cmd.Err == nil || !errors.Is(cmd.Err, ErrorTargetFailedToBecomeHealthy)) {
				vs = append(vs, Violation{"C01", "no-failure-despite-unhealthy-target", fmt.Sprintf("%s answered no 2xx probe within the deploy timeout but %s returned %v", n, cmd.Name, cmd.Err)})
				break
			}
		}
		// O4
		if cmd.Err != nil {
			for _, e := range evs {
				if e.Kind == "req" && isNew[e.Target] {
					vs = append(vs, Violation{"C01", "client-request-reached-rejected-target", fmt.Sprintf("%s failed (%v) but request %s reached %s at %v", cmd.Name, cmd.Err, e.ReqID, e.Target, e.At)})
					break
				}
			}
			for _, r := range w.Reqs {
				if r.StartSeq < cmd.StartSeq {
					continue
				}
				want := "oa:80"
				if c.pre == "rollout" && r.Spec.Cookie != "" {
					want = "ra:80"
				}
				if c.pre == "absent" {
					if r.Status != 404 && r.Done {
						vs = append(vs, Violation{"C01", fmt.Sprintf("absent-service-answered-%d-after-failed-deploy", r.Status), fmt.Sprintf("request %s: %s", r.ID, r.Summary())})
					}
				} else if stalled && r.Status == 503 && r.ServedBy() == "" {
					// a stalled probe of an old target may have timed out: no healthy target is C09's business
				} else if r.Status != 200 || r.ServedBy() != want {
					vs = append(vs, Violation{"C01", "old-targets-not-serving-after-failed-" + cmd.Name, fmt.Sprintf("request %s (cookie %q) expected 200 from %s, got %s", r.ID, r.Spec.Cookie, want, r.Summary())})
				}
			}
		} else {
			// success: requests issued after the return go to the new targets
			// (deploy: all; rollout: opted-in ones when a split is set)
			for _, r := range w.Reqs {
				if r.StartSeq < cmd.EndSeq {
					continue
				}
				wantNew := c.cmd == "deploy" && (c.pre != "rollout" || r.Spec.Cookie == "")
				if c.cmd == "rollout" && c.pre == "rollout" && r.Spec.Cookie != "" {
					wantNew = true
				}
				if wantNew && !(r.Status == 200 && isNew[r.ServedBy()]) {
					// a 503 right after the return is C02's finding (empty rotation); other outcomes are C01's
					if r.Status == 503 {
						continue
					}
					vs = append(vs, Violation{"C01", "traffic-not-moved-after-success", fmt.Sprintf("request %s after successful %s: %s", r.ID, cmd.Name, r.Summary())})
				}
			}
		}
		return vs
	}
	return sc
}

// c01OverlappingCommands: two commands that bring new targets to the SAME service overlap: the first one's target
// turns healthy after one interval, the second one (started 200ms later) names a healthy target and one that never
// passes a probe. For each command separately: no client request reaches any of its targets before all of them have
// answered a 2xx probe, and none at all if the command fails.
func c01OverlappingCommands(first, second string) *Scenario {
	sc := &Scenario{Name: fmt.Sprintf("C01 %s overlapping %s of the same service", first, second), Horizon: 120 * time.Second}
	const host = "a.example.com"
	sets := [][]string{{"ga:80"}, {"ok2:80", "bad:80"}}
	var cmds [2]*CmdObs
	sc.Run = func(w *World) {
		cmds = [2]*CmdObs{}
		w.AddTarget("oa:80")
		w.AddTarget("ra:80")
		w.AddTarget("ga:80", p500(), pOK())
		w.AddTarget("ok2:80")
		w.AddTarget("bad:80", p500())
		w.Deploy(deployArgs("s1", []string{"oa:80"}, []string{host}, nil))
		w.RolloutDeploy("s1", []string{"ra:80"})
		w.RolloutSet("s1", 0, []string{"v"})
		time.Sleep(vI / 2)
		run := func(kind string, targets []string) *CmdObs {
			if kind == "deploy" {
				return w.Deploy(deployArgs("s1", targets, []string{host}, nil))
			}
			return w.RolloutDeploy("s1", targets)
		}
		var wg vsync.WaitGroup
		t0 := w.Now()
		w.S.SetWindow(true)
		wg.Add(3)
		vsched.GoTagged("cmd", func() { defer wg.Done(); cmds[0] = run(first, sets[0]) })
		vsched.GoTagged("cmd", func() {
			defer wg.Done()
			time.Sleep(200 * time.Millisecond)
			cmds[1] = run(second, sets[1])
		})
		vsched.GoTagged("client", func() {
			defer wg.Done()
			for j, o := range []time.Duration{500 * time.Millisecond, 1500 * time.Millisecond, 3 * time.Second, 6 * time.Second} {
				time.Sleep(t0 + o - w.Now())
				w.Do(ReqSpec{ID: fmt.Sprintf("c-cookie%d", j), Host: host, Cookie: "kamal-rollout=v"})
				w.Do(ReqSpec{ID: fmt.Sprintf("c-plain%d", j), Host: host})
			}
		})
		wg.Wait()
		w.S.SetWindow(false)
		time.Sleep(2 * vI)
		w.Do(ReqSpec{ID: "late-cookie", Host: host, Cookie: "kamal-rollout=v"})
		w.Do(ReqSpec{ID: "late-plain", Host: host})
	}
	sc.Check = func(w *World) []Violation {
		var vs []Violation
		if cmds[0] == nil || cmds[1] == nil || !cmds[0].Done || !cmds[1].Done {
			return vs
		}
		evs := w.Net.Events()
		firstOK := map[string]int{}
		for _, e := range evs {
			if e.Kind == "probe-answer" && e.Status >= 200 && e.Status <= 299 {
				if _, ok := firstOK[e.Target]; !ok {
					firstOK[e.Target] = e.Seq
				}
			}
		}
		for i, set := range sets {
			member := map[string]bool{}
			for _, t := range set {
				member[t] = true
			}
			for _, e := range evs {
				if e.Kind != "req" || !member[e.Target] {
					continue
				}
				if cmds[i].Err != nil {
					vs = append(vs, Violation{"C01", "client-request-reached-rejected-target overlapping-commands", fmt.Sprintf("%s %v failed (%v) but request %s reached %s at %v", cmds[i].Name, set, cmds[i].Err, e.ReqID, e.Target, e.At)})
					break
				}
				bad := ""
				for _, t := range set {
					if s, ok := firstOK[t]; !ok || s > e.Seq {
						bad = t
					}
				}
				if bad != "" {
					vs = append(vs, Violation{"C01", "client-request-before-all-new-targets-healthy overlapping-commands", fmt.Sprintf("request %s reached %s at %v but %s (named by the same command) had not answered a 2xx probe", e.ReqID, e.Target, e.At, bad)})
					break
				}
			}
		}
		if !w.HadStall() && cmds[0].Err != nil && !errors.Is(cmds[0].Err, ErrorTargetFailedToBecomeHealthy) {
			vs = append(vs, Violation{"C01", "setup", fmt.Sprintf("first command: %v", cmds[0].Err)})
		}
		if !w.HadStall() && cmds[1].Err == nil {
			vs = append(vs, Violation{"C01", "no-failure-despite-unhealthy-target overlapping-commands", fmt.Sprintf("%s %v returned nil although bad:80 never answered a 2xx probe", cmds[1].Name, sets[1])})
		}
		for _, r := range w.Reqs {
			if r.Done && r.Status != 200 && r.Status != 503 {
				vs = append(vs, Violation{"C01", "request-failed overlapping-commands", r.Summary()})
				break
			}
		}
		return vs
	}
	return sc
}

func checkC01(t *testing.T, job *Job, res *Result) {
	tier := job.Tier
	if job.Replay != nil {
		tier = job.Replay.Tier
	}
	var scs []*Scenario
	for _, c := range c01Configs(tier) {
		scs = append(scs, c01Scenario(c))
	}
	for _, x := range [][2]string{{"rollout", "rollout"}, {"deploy", "deploy"}, {"rollout", "deploy"}, {"deploy", "rollout"}} {
		scs = append(scs, c01OverlappingCommands(x[0], x[1]))
	}
	b := Bounds{D: 1, S: 1, Total: 1}
	if tier == "thorough" {
		b = Bounds{D: 2, S: 1, Total: 2}
	}
	res.Rule = "two commands naming new targets for the same service overlapping (per command: no request before all of ITS targets passed a probe, none if it failed); configurations = command {deploy, rollout deploy} x pre-state {absent, active, active+rollout+split} x 1..3 new targets x per-target probe script {ok, k failures (refused/500/slow) then ok, never ok, first 2xx just before/after the deploy timeout, flapping} x client threads issuing plain and cookie requests spread over the command; per configuration every schedule within the deviation bounds; oracle O1-O5 of DESIGN.md C01 on target-side logs"
	runS(t, job, res, "C01", withReversed(scs), b, 4000)
}
