//go:build verif

package server

import (
	"crypto/ecdsa"
	"crypto/elliptic"
	"crypto/rand"
	"crypto/x509"
	"crypto/x509/pkix"
	"encoding/pem"
	"errors"
	"fmt"
	"html"
	"math/big"
	"os"
	"sort"
	"strconv"
	"strings"
	"testing"
	"time"

	"github.com/basecamp/kamal-proxy/internal/verif/memnet"
	"github.com/basecamp/kamal-proxy/internal/verif/vsched"
)

// ---------------------------------------------------------------------------
// operations (the alphabet of engine H); an op is a string so that histories
// are replayable artefacts

type HOp struct {
	Kind  string // deploy rdeploy rset rstop pause stop resume remove restart
	Svc   string
	Hosts []string
	Paths []string
	N     int
	Opt   string // plain tls tlsnr strip0 pages buf tt hc fwd
	Bad   string // malformed-first malformed-last unhealthy-one unhealthy-all cert pages-empty pages-broken acme-wildcard
	Pct   int
	Allow string
	Max   time.Duration
	Msg   string
	Dup   bool // the same target is named N times in the command
	raw   string
}

func parseOp(s string) HOp {
	f := strings.Fields(s)
	op := HOp{Kind: f[0], raw: s, N: 1, Opt: "plain", Max: 20 * time.Second}
	rest := f[1:]
	if op.Kind != "restart" && len(rest) > 0 {
		op.Svc = rest[0]
		rest = rest[1:]
	}
	for _, kv := range rest {
		k, v, _ := strings.Cut(kv, "=")
		switch k {
		case "h":
			if v != "-" {
				op.Hosts = strings.Split(v, ",")
				for i, h := range op.Hosts {
					if h == "-" {
						op.Hosts[i] = "" // the default host inside a list
					}
				}
			}
		case "p":
			op.Paths = strings.Split(v, ",")
		case "n":
			op.N, _ = strconv.Atoi(v)
		case "dup":
			op.Dup = v == "1"
		case "o":
			op.Opt = v
		case "bad":
			op.Bad = v
		case "pct":
			op.Pct, _ = strconv.Atoi(v)
		case "allow":
			op.Allow = v
		case "max":
			ms, _ := strconv.Atoi(v)
			op.Max = time.Duration(ms) * time.Millisecond
		case "msg":
			op.Msg = v
		}
	}
	return op
}

var stopMessages = map[string]string{
	"":   "",
	"m1": "plain text",
	"m2": `<b>bold</b> & "q" 'a'`,
	"m3": `{{.Message}}{{printf "%s" .}}`,
	"m4": `</p><script>x</script>`,
	"m5": strings.Repeat("long message ", 24),
	"m6": "größe ☃ 日本",
}

// ---------------------------------------------------------------------------
// static certificate and error-page fixtures (generated once per process)

var fixtureDir string

func fixtures() string {
	if fixtureDir != "" {
		return fixtureDir
	}
	base := os.Getenv("VERIF_SCRATCH")
	if base == "" {
		base = "/dev/shm"
	}
	dir, err := os.MkdirTemp(base, "kpv-fix-")
	if err != nil {
		panic(err)
	}
	key, _ := ecdsa.GenerateKey(elliptic.P256(), rand.Reader)
	tmpl := &x509.Certificate{SerialNumber: big.NewInt(1), Subject: pkix.Name{CommonName: "verif"},
		NotBefore: time.Date(1990, 1, 1, 0, 0, 0, 0, time.UTC), NotAfter: time.Date(2100, 1, 1, 0, 0, 0, 0, time.UTC), DNSNames: []string{"a.example.com", "b.example.com", "*.example.com"}}
	der, err := x509.CreateCertificate(rand.Reader, tmpl, tmpl, &key.PublicKey, key)
	if err != nil {
		panic(err)
	}
	kb, _ := x509.MarshalECPrivateKey(key)
	os.WriteFile(dir+"/cert.pem", pem.EncodeToMemory(&pem.Block{Type: "CERTIFICATE", Bytes: der}), 0o644)
	os.WriteFile(dir+"/key.pem", pem.EncodeToMemory(&pem.Block{Type: "EC PRIVATE KEY", Bytes: kb}), 0o600)
	os.WriteFile(dir+"/garbage.pem", []byte("not a certificate"), 0o644)
	os.Mkdir(dir+"/pages", 0o755)
	os.WriteFile(dir+"/pages/503.html", []byte("<html>CUSTOM-503 {{ if .Message }}[{{ .Message }}]{{ end }}</html>"), 0o644)
	os.WriteFile(dir+"/pages/502.html", []byte("<html>CUSTOM-502</html>"), 0o644)
	os.WriteFile(dir+"/pages/504.html", []byte("<html>CUSTOM-504</html>"), 0o644)
	os.Mkdir(dir+"/pages-no503", 0o755)
	os.WriteFile(dir+"/pages-no503/404.html", []byte("<html>CUSTOM-404</html>"), 0o644)
	os.Mkdir(dir+"/pages-ignore", 0o755)
	os.WriteFile(dir+"/pages-ignore/503.html", []byte("<html>CUSTOM-503-NOMSG</html>"), 0o644)
	os.Mkdir(dir+"/pages-empty", 0o755)
	os.Mkdir(dir+"/pages-broken", 0o755)
	os.WriteFile(dir+"/pages-broken/503.html", []byte("<html>{{ .Message </html>"), 0o644)
	fixtureDir = dir
	return dir
}

// ---------------------------------------------------------------------------

func classifyErr(err error) string {
	switch {
	case err == nil:
		return "ok"
	case errors.Is(err, ErrorInvalidHostPattern):
		return "invalid-target"
	case errors.Is(err, ErrorTargetFailedToBecomeHealthy):
		return "unhealthy"
	case errors.Is(err, ErrorUnableToLoadCertificate):
		return "cert"
	case errors.Is(err, ErrorUnableToLoadErrorPages):
		return "pages"
	case errors.Is(err, ErrorAutomaticTLSDoesNotSupportWildcards):
		return "acme-wildcard"
	case errors.Is(err, ErrorHostInUse):
		return "host-in-use"
	case errors.Is(err, ErrorServiceNotFound):
		return "not-found"
	case errors.Is(err, ErrorRolloutTargetNotSet):
		return "rollout-not-set"
	}
	return "other:" + err.Error()
}

// HWorld is a World plus the reference model and bookkeeping of a history.
type HWorld struct {
	*World
	M        *Model
	opNo     int
	lastCmd  *CmdObs
	lastWant []string // acceptable error classes of the last op (empty = success)
	rejected []string // targets named only in the last (failed) command
	allNames map[string]bool
}

func (h *HWorld) targetNames(op HOp) []string {
	var res []string
	for i := 0; i < op.N; i++ {
		if op.Dup {
			res = append(res, fmt.Sprintf("%sg%da:80", op.Svc, h.opNo))
			continue
		}
		res = append(res, fmt.Sprintf("%sg%d%c:80", op.Svc, h.opNo, 'a'+i))
	}
	return res
}

func (h *HWorld) buildDeployArgs(op HOp, targets []string) DeployArgs {
	a := deployArgs(op.Svc, targets, op.Hosts, op.Paths)
	fx := fixtures()
	switch op.Opt {
	case "tls":
		a.ServiceOptions.TLSEnabled = true
		a.ServiceOptions.TLSCertificatePath, a.ServiceOptions.TLSPrivateKeyPath = fx+"/cert.pem", fx+"/key.pem"
	case "tlsnr":
		a.ServiceOptions.TLSEnabled = true
		a.ServiceOptions.TLSRedirect = false
		a.ServiceOptions.TLSCertificatePath, a.ServiceOptions.TLSPrivateKeyPath = fx+"/cert.pem", fx+"/key.pem"
	case "strip0":
		a.ServiceOptions.StripPrefix = false
	case "pages":
		a.ServiceOptions.ErrorPagePath = fx + "/pages"
	case "pages-no503":
		a.ServiceOptions.ErrorPagePath = fx + "/pages-no503"
	case "pages-ignore":
		a.ServiceOptions.ErrorPagePath = fx + "/pages-ignore"
	case "buf":
		a.TargetOptions.BufferRequests = true
		a.TargetOptions.MaxMemoryBufferSize = 16
		a.TargetOptions.MaxRequestBodySize = 32
	case "tt":
		a.TargetOptions.ResponseTimeout = 1700 * time.Millisecond
	case "hc":
		a.TargetOptions.HealthCheckConfig.Path = "/health2"
	case "fwd":
		a.TargetOptions.ForwardHeaders = true
	}
	switch op.Bad {
	case "cert":
		a.ServiceOptions.TLSEnabled = true
		a.ServiceOptions.TLSCertificatePath, a.ServiceOptions.TLSPrivateKeyPath = fx+"/garbage.pem", fx+"/key.pem"
	case "pages-empty":
		a.ServiceOptions.ErrorPagePath = fx + "/pages-empty"
	case "pages-broken":
		a.ServiceOptions.ErrorPagePath = fx + "/pages-broken"
	case "acme-wildcard":
		a.ServiceOptions.TLSEnabled = true
		a.ServiceOptions.TLSCertificatePath, a.ServiceOptions.TLSPrivateKeyPath = "", ""
		a.ServiceOptions.Hosts = append([]string{"*.wild.example.org"}, op.Hosts...)
		a.ServiceOptions.ACMECachePath = h.Dir + "/acme"
	}
	return a
}

// applyModel applies op to the reference model and returns the acceptable
// error classes (empty = the command must succeed). Target names are a
// function of the position in the history, so model and implementation agree.
func (h *HWorld) applyModel(op HOp) map[string]bool {
	h.opNo++
	m := h.M
	svc := m.Services[op.Svc]
	want := map[string]bool{}
	switch op.Kind {
	case "deploy", "rdeploy":
		names := h.targetNames(op)
		switch op.Bad {
		case "unhealthy-all", "unhealthy-one":
			want["unhealthy"] = true
		case "malformed-first", "malformed-last":
			want["invalid-target"] = true
		case "cert":
			want["cert"] = true
		case "pages-empty", "pages-broken":
			want["pages"] = true
		case "acme-wildcard":
			want["acme-wildcard"] = true
		}
		if op.Kind == "deploy" {
			hosts, paths := normHosts(op.Hosts), normPaths(op.Paths)
			if op.Bad == "acme-wildcard" {
				hosts = append([]string{"*.wild.example.org"}, op.Hosts...)
			}
			if c := m.conflictWith(op.Svc, hosts, paths); c != "" {
				want["host-in-use"] = true
			}
			if len(want) == 0 {
				ns := &MService{Name: op.Svc, Gate: "running"}
				if svc != nil {
					c := *svc
					ns = &c
				}
				ns.Hosts, ns.Paths, ns.Active, ns.Opt = hosts, paths, names, op.Opt
				m.Services[op.Svc] = ns
			}
		} else {
			if svc == nil {
				want = map[string]bool{"not-found": true}
			}
			if len(want) == 0 {
				svc.Rollout = names
			}
		}
	case "rset":
		if svc == nil {
			want["not-found"] = true
		} else if len(svc.Rollout) == 0 {
			want["rollout-not-set"] = true
		}
		if len(want) == 0 {
			svc.Split = &MSplit{Pct: op.Pct, Allow: opAllow(op)}
		}
	case "rstop", "pause", "stop", "resume", "remove":
		if svc == nil {
			want["not-found"] = true
			break
		}
		switch op.Kind {
		case "rstop":
			svc.Split = nil
		case "pause":
			svc.Gate, svc.Msg, svc.MaxPause = "paused", "", op.Max
		case "stop":
			svc.Gate, svc.Msg = "stopped", stopMessages[op.Msg]
		case "resume":
			svc.Gate, svc.Msg = "running", ""
		case "remove":
			delete(m.Services, op.Svc)
		}
	case "restart":
	default:
		panic("unknown op " + op.Kind)
	}
	return want
}

func opAllow(op HOp) []string {
	if op.Allow != "" && op.Allow != "-" {
		return strings.Split(op.Allow, ",")
	}
	return nil
}

// apply performs op on the model and on the implementation.
func (h *HWorld) apply(op HOp) {
	want := h.applyModel(op)
	h.rejected = nil
	h.lastWant = nil
	switch op.Kind {
	case "deploy", "rdeploy":
		names := h.targetNames(op)
		regNames := append([]string(nil), names...)
		for i, n := range names {
			probes := []memnet.ProbeStep{pOK()}
			if op.Bad == "unhealthy-all" || (op.Bad == "unhealthy-one" && i == len(names)-1) {
				probes = []memnet.ProbeStep{p500()}
			}
			hp := vHealthPath
			if op.Opt == "hc" {
				hp = "/health2"
			}
			h.Net.Add(&memnet.Target{Name: n, HealthPath: hp, Probes: probes})
			h.allNames[n] = true
		}
		switch op.Bad {
		case "malformed-first":
			names = append([]string{"bad target!"}, names...)
		case "malformed-last":
			names = append(names, "x")
		}
		if op.Kind == "deploy" {
			h.lastCmd = h.Deploy(h.buildDeployArgs(op, names))
		} else {
			rd := RolloutDeployArgs{Service: op.Svc, TargetURLs: names, DeployTimeout: vT, DrainTimeout: vD}
			h.lastCmd = h.runCmd("rollout-deploy", fmt.Sprint(names), func() error { var r bool; return h.Cmd.RolloutDeploy(rd, &r) })
		}
		if len(want) > 0 {
			h.rejected = regNames
		}
	case "rset":
		h.lastCmd = h.RolloutSet(op.Svc, op.Pct, opAllow(op))
	case "rstop":
		h.lastCmd = h.RolloutStop(op.Svc)
	case "pause":
		h.lastCmd = h.Pause(op.Svc, vD, op.Max)
	case "stop":
		h.lastCmd = h.Stop(op.Svc, vD, stopMessages[op.Msg])
	case "resume":
		h.lastCmd = h.Resume(op.Svc)
	case "remove":
		h.lastCmd = h.Remove(op.Svc)
	case "restart":
		// the old process dies: stop its probe loops (emulated by disposing its services)
		old := h.Router
		c := &CmdObs{Name: "restart"}
		h.mu.Lock()
		h.Cmds = append(h.Cmds, c)
		h.mu.Unlock()
		c.Start = h.Now()
		c.StartSeq = h.Net.Mark("cmd-start", "restart")
		func() {
			defer func() {
				if r := recover(); r != nil {
					c.Panic = r
					c.Err = fmt.Errorf("panic: %v", r)
				}
			}()
			for _, s := range vsched.Sorted(old.services.services) {
				s.Dispose()
			}
			c.Err = h.Restart()
		}()
		c.End = h.Now()
		c.EndSeq = h.Net.Mark("cmd-end", "restart")
		c.Done = true
		h.lastCmd = c
	}
	for k := range want {
		h.lastWant = append(h.lastWant, k)
	}
	sort.Strings(h.lastWant)
}

// resultViolation compares the result of the last command with the model.
func (h *HWorld) resultViolation(prop string, op HOp) *Violation {
	got := classifyErr(h.lastCmd.Err)
	if h.lastCmd.Panic != nil {
		return &Violation{prop, "panic:cmd-" + op.Kind, fmt.Sprintf("%s panicked: %v", op.raw, h.lastCmd.Panic)}
	}
	if len(h.lastWant) == 0 {
		if got != "ok" {
			return &Violation{prop, fmt.Sprintf("command-failed-unexpectedly %s %s", op.Kind, got), fmt.Sprintf("%q returned %v; the reference model expects success", op.raw, h.lastCmd.Err)}
		}
		return nil
	}
	for _, w := range h.lastWant {
		if w == got {
			return nil
		}
	}
	return &Violation{prop, fmt.Sprintf("wrong-result %s got=%s want=%s", op.Kind, got, strings.Join(h.lastWant, "|")), fmt.Sprintf("%q returned %v; the reference model expects one of %v", op.raw, h.lastCmd.Err, h.lastWant)}
}

// ---------------------------------------------------------------------------
// observation

type Cell struct {
	Host, Path, Cookie string
	TLS                bool
	Method             string
}

func (c Cell) String() string {
	s := "http"
	if c.TLS {
		s = "https"
	}
	m := c.Method
	if m == "" {
		m = "GET"
	}
	return fmt.Sprintf("%s %s://%s%s cookie=%q", m, s, c.Host, c.Path, c.Cookie)
}

type CellObs struct {
	Cell Cell
	Obs  *ReqObs
	Held bool
}

type HObs struct {
	Cells  []CellObs
	List   ServiceDescriptionMap
	Probed map[string]int // probes per target in the settle window
}

type ObsSpec struct {
	Hosts   []string
	Paths   []string
	Cookies []string // "" = none, else value of kamal-rollout
	TLS     []bool
	Methods []string
	Settle  bool // count probes over 3 intervals
}

func (h *HWorld) observe(spec ObsSpec) *HObs {
	o := &HObs{Probed: map[string]int{}}
	methods := spec.Methods
	if len(methods) == 0 {
		methods = []string{"GET"}
	}
	for _, host := range spec.Hosts {
		for _, path := range spec.Paths {
			for _, ck := range spec.Cookies {
				for _, tl := range spec.TLS {
					for _, me := range methods {
						o.Cells = append(o.Cells, CellObs{Cell: Cell{host, path, ck, tl, me}})
					}
				}
			}
		}
	}
	for i := range o.Cells {
		i := i
		c := o.Cells[i].Cell
		spec := ReqSpec{ID: fmt.Sprintf("o%d.%d", h.opNo, i), Host: c.Host, Path: c.Path, TLS: c.TLS, Method: c.Method}
		if c.Cookie != "" {
			spec.Cookie = "kamal-rollout=" + c.Cookie
		}
		if c.Method == "POST" {
			spec.Body = []byte("0123456789")
		}
		vsched.GoTagged("client", func() {
			o.Cells[i].Obs = h.Do(spec)
		})
	}
	// everything not answered after 30ms of virtual time is being held
	time.Sleep(30 * time.Millisecond)
	for i := range o.Cells {
		if o.Cells[i].Obs == nil || !o.Cells[i].Obs.Done {
			o.Cells[i].Held = true
		}
	}
	o.List, _ = h.List()
	if spec.Settle {
		from := h.Net.Mark("settle-start", "")
		time.Sleep(3*vI + 50*time.Millisecond)
		for _, e := range h.Net.Events() {
			if e.Seq > from && (e.Kind == "probe" || e.Kind == "probe-refused") {
				o.Probed[e.Target]++
			}
		}
	}
	return o
}

// predictCell gives the model's expectation for one cell:
//
//	"404" | "301 <location>" | "503-tls" | "503-stopped" | "held" | "proxy-200" | "fwd active|rollout"
func (h *HWorld) predictCell(c Cell) (string, *MService, string) {
	m := h.M
	pathOnly, _, _ := strings.Cut(c.Path, "?")
	name, prefix := m.route(c.Host, pathOnly)
	if name == "" {
		return "404", nil, ""
	}
	s := m.Services[name]
	tlsOn, redirect := false, true
	servesRoot := false
	for _, p := range s.Paths {
		if p == "/" {
			servesRoot = true
		}
	}
	if servesRoot {
		tlsOn, redirect = optTLS(s.Opt)
	} else if rp := m.rootPolicy(c.Host); rp != nil {
		tlsOn, redirect = optTLS(rp.Opt)
	}
	if tlsOn && redirect && !c.TLS {
		return "301 https://" + stripPort(c.Host) + c.Path, s, prefix
	}
	if !tlsOn && c.TLS {
		return "503-tls", s, prefix
	}
	hp := vHealthPath
	if s.Opt == "hc" {
		hp = "/health2"
	}
	isHealthGet := (c.Method == "" || c.Method == "GET") && pathOnly == hp
	switch s.Gate {
	case "stopped":
		if isHealthGet {
			return "proxy-200", s, prefix
		}
		return "503-stopped", s, prefix
	case "paused":
		if isHealthGet {
			return "proxy-200", s, prefix
		}
		if s.MaxPause <= 0 {
			return "status-504", s, prefix // a hold limit of zero has expired on arrival
		}
		return "held", s, prefix
	}
	if s.inRollout(c.Cookie) {
		return "fwd rollout", s, prefix
	}
	return "fwd active", s, prefix
}

// checkObs compares an observation with the model; clause names select the
// property a mismatch is attributed to.
func (h *HWorld) checkObs(prop string, o *HObs, clauses map[string]bool) []Violation {
	var vs []Violation
	add := func(sig, detail string) {
		vs = append(vs, Violation{prop, sig, detail})
	}
	evs := h.Net.Events()
	reqTarget := map[string]memnet.Event{}
	for _, e := range evs {
		if e.Kind == "req" {
			reqTarget[e.ReqID] = e
		}
	}
	for _, co := range o.Cells {
		want, svc, prefix := h.predictCell(co.Cell)
		r := co.Obs
		got := ""
		switch {
		case co.Held:
			got = "held"
		case r == nil:
			got = "none"
		case r.Panic != nil:
			got = fmt.Sprintf("panic(%v)", r.Panic)
		case r.Status == 200 && r.ServedBy() != "":
			slot := "foreign:" + r.ServedBy()
			if svc != nil {
				for _, t := range svc.Active {
					if t == r.ServedBy() {
						slot = "active"
					}
				}
				for _, t := range svc.Rollout {
					if t == r.ServedBy() {
						slot = "rollout"
					}
				}
			}
			got = "fwd " + slot
		case r.Status == 200 && len(r.Body) == 0:
			got = "proxy-200"
		case r.Status == 301:
			got = "301 " + r.Header.Get("Location")
		case r.Status == 404:
			got = "404"
		case r.Status == 503:
			got = "503"
			if want == "503-tls" || want == "503-stopped" {
				got = want // told apart by the stop-message clause
			}
		default:
			got = fmt.Sprintf("status-%d", r.Status)
		}
		if got != want {
			kind := "routing"
			switch {
			case strings.HasPrefix(want, "301") || want == "503-tls" || strings.HasPrefix(got, "301") || (got == "503-tls" && want != "503-stopped"),
				got == "503" && co.Cell.TLS && strings.HasPrefix(want, "fwd") && svc != nil && len(svc.Hosts) > 1:
				kind = "tls-policy"
			case want == "held" || want == "503-stopped" || want == "proxy-200" || got == "held" || want == "status-504":
				kind = "gate"
			case strings.HasPrefix(want, "fwd") && strings.HasPrefix(got, "fwd"):
				kind = "target-set"
			}
			if !clauses[kind] {
				continue
			}
			if kind == "tls-policy" && svc != nil && len(svc.Hosts) > 1 {
				root := false
				for _, p := range svc.Paths {
					if p == "/" {
						root = true
					}
				}
				if !root && stripPort(co.Cell.Host) != svc.Hosts[0] {
					kind = "tls-policy subpath-multihost-follows-first-host"
				}
			}
			add(fmt.Sprintf("%s want=%s got=%s", kind, sigTrim(want), sigTrim(got)), fmt.Sprintf("%s: model expects %q, implementation gave %q (model: %s)", co.Cell, want, got, h.M.key()))
			continue
		}
		// stop message
		if want == "503-stopped" && clauses["stop-message"] && r != nil {
			body := string(r.Body)
			msg := svc.Msg
			custom := svc.Opt == "pages" || svc.Opt == "pages-ignore"
			if custom != strings.Contains(body, "CUSTOM-503") {
				add("stop-page custom="+fmt.Sprint(custom), fmt.Sprintf("%s: body %q", co.Cell, firstN(r.Body, 120)))
			}
			shows := svc.Opt != "pages-ignore"
			if msg != "" && shows {
				e1 := html.EscapeString(msg)
				e2 := strings.ReplaceAll(strings.ReplaceAll(e1, "&#34;", "&quot;"), "&#39;", "&apos;")
				e3 := strings.ReplaceAll(e1, "+", "&#43;")
				if !strings.Contains(body, e1) && !strings.Contains(body, e2) && !strings.Contains(body, e3) {
					add("stop-message-missing-or-not-escaped", fmt.Sprintf("%s: message %q not found HTML-escaped in body %q", co.Cell, msg, bodyAround(body, "article", 300)))
				}
			}
			if msg != "" && strings.ContainsAny(msg, `<>&"'`) && strings.Contains(body, msg) {
				add("stop-message-inserted-verbatim", fmt.Sprintf("%s: body contains %q unescaped", co.Cell, msg))
			}
			if _, ok := reqTarget[r.ID]; ok {
				add("stopped-service-contacted-target", co.Cell.String())
			}
		}
		// prefix stripping as seen by the target
		if strings.HasPrefix(want, "fwd") && clauses["strip"] && r != nil {
			if e, ok := reqTarget[r.ID]; ok {
				exp := co.Cell.Path
				if svc.Opt != "strip0" && prefix != "/" && strings.HasPrefix(exp, prefix) {
					exp = strings.TrimPrefix(exp, prefix)
					if exp == "" {
						exp = "/"
					}
				}
				if e.URI != exp {
					add("strip-prefix", fmt.Sprintf("%s: target saw %q, expected %q (opt %s prefix %s)", co.Cell, e.URI, exp, svc.Opt, prefix))
				}
			}
		}
	}
	if clauses["list"] {
		var names []string
		for n := range o.List {
			names = append(names, n)
		}
		sort.Strings(names)
		if strings.Join(names, ",") != strings.Join(sortedKeys(h.M.Services), ",") {
			add("list-services", fmt.Sprintf("list=%v model=%v", names, sortedKeys(h.M.Services)))
		} else {
			for _, n := range names {
				d, s := o.List[n], h.M.Services[n]
				hosts := strings.Join(s.Hosts, ",")
				if hosts == "" {
					hosts = "*"
				}
				tlsOn := false
				// sub-path services show the inherited flag
				servesRoot := false
				for _, p := range s.Paths {
					if p == "/" {
						servesRoot = true
					}
				}
				if servesRoot {
					tlsOn, _ = optTLS(s.Opt)
				} else if rp := h.M.rootPolicy(s.Hosts[0]); rp != nil {
					tlsOn, _ = optTLS(rp.Opt)
				}
				want := fmt.Sprintf("host=%s path=%s target=%s state=%s tls=%v", hosts, strings.Join(s.Paths, ","), strings.Join(s.Active, ","), s.Gate, tlsOn)
				got := fmt.Sprintf("host=%s path=%s target=%s state=%s tls=%v", d.Host, d.Path, d.Target, d.State, d.TLS)
				if want != got {
					add("list-row "+diffField(want, got), fmt.Sprintf("service %s: list shows %q, model %q", n, got, want))
				}
			}
		}
	}
	if clauses["probed"] && o.Probed != nil {
		want := map[string]bool{}
		for _, s := range h.M.Services {
			for _, t := range s.Active {
				want[t] = true
			}
			for _, t := range s.Rollout {
				want[t] = true
			}
		}
		for t := range want {
			if o.Probed[t] < 2 {
				add("live-target-not-probed", fmt.Sprintf("%s received %d probes in 3 intervals", t, o.Probed[t]))
			}
		}
		for t, n := range o.Probed {
			if !want[t] && n > 0 {
				class := "stale"
				for _, r := range h.rejected {
					if r == t {
						class = "rejected-by-failed-command"
					}
				}
				add("probes-to-"+class+"-target", fmt.Sprintf("%s received %d probes in the settle window although no service uses it (last command %s -> %v)", t, n, h.lastCmd.Name, h.lastCmd.Err))
			}
		}
	}
	return vs
}

func sigTrim(s string) string {
	if strings.HasPrefix(s, "301 ") {
		return "301"
	}
	if strings.HasPrefix(s, "foreign:") {
		return "foreign"
	}
	if i := strings.Index(s, "foreign:"); i >= 0 {
		return s[:i] + "foreign"
	}
	return s
}

func diffField(a, b string) string {
	fa, fb := strings.Fields(a), strings.Fields(b)
	for i := range fa {
		if i < len(fb) && fa[i] != fb[i] {
			k, _, _ := strings.Cut(fa[i], "=")
			return k
		}
	}
	return "?"
}

func bodyAround(body, marker string, n int) string {
	i := strings.Index(body, "<"+marker)
	if i < 0 {
		return firstN([]byte(body), n)
	}
	end := i + n
	if end > len(body) {
		end = len(body)
	}
	return body[i:end]
}

// fingerprint is a canonical string of an observation (used to compare
// before/after a failing command).
func (o *HObs) fingerprint(h *HWorld) string {
	var parts []string
	for _, co := range o.Cells {
		r := co.Obs
		s := "held"
		if !co.Held && r != nil {
			// targets are named by the slot they fill (rotation picks different members)
			slot := r.ServedBy()
			for _, n := range sortedKeys(h.M.Services) {
				ms := h.M.Services[n]
				for _, t := range ms.Active {
					if t == slot {
						slot = n + "/active"
					}
				}
				for _, t := range ms.Rollout {
					if t == slot {
						slot = n + "/rollout"
					}
				}
			}
			s = fmt.Sprintf("%d@%s loc=%s", r.Status, slot, r.Header.Get("Location"))
			if r.Status == 503 {
				s += " body=" + fmt.Sprint(fnv32a(string(r.Body)))
			}
		}
		parts = append(parts, co.Cell.String()+" => "+s)
	}
	for _, n := range sortedKeys(o.List) {
		d := o.List[n]
		parts = append(parts, fmt.Sprintf("list %s: %+v", n, d))
	}
	var pr []string
	for t, n := range o.Probed {
		if n > 0 {
			pr = append(pr, t)
		}
	}
	sort.Strings(pr)
	parts = append(parts, "probed: "+strings.Join(pr, ","))
	return strings.Join(parts, "\n")
}

// ---------------------------------------------------------------------------
// exploration

type HSpec struct {
	Prop     string
	Name     string
	Alphabet func(m *Model, depth int) []string // candidate ops in a model state
	Depth    int
	Obs      ObsSpec
	Clauses  map[string]bool
	// Extend reports whether histories ending in op (which failed in the model if failed) are extended
	ExtendFailed bool
	// WarmBetween: requests sent after every intermediate command of a history (not judged)
	WarmBetween *ObsSpec
	// Extra, if set, runs after the standard oracle on the final state
	Extra func(h *HWorld, op HOp, o *HObs) []Violation
	// PreLast, if set, runs right before the last op (C06 takes its "before" fingerprint here)
	PreLast func(h *HWorld, op HOp)
	// EvalOnly, if set, selects the transitions on which the implementation is run
	EvalOnly func(hist []string, failed bool) bool
	Log      bool
}

type hNode struct {
	hist   []string
	failed bool
}

// runHistory replays hist on a fresh world under the default schedule and
// evaluates the oracle after the last op.
func runHistory(t *testing.T, spec *HSpec, hist []string) (*ExecResult, *Model, bool) {
	var model *Model
	lastFailed := false
	sc := &Scenario{Name: spec.Name + " " + strings.Join(hist, " ; "), Horizon: 10 * time.Minute, Log: spec.Log}
	var extra []Violation
	sc.Run = func(w *World) {
		h := &HWorld{World: w, M: newModel(), allNames: map[string]bool{}}
		model = h.M
		for i, s := range hist {
			op := parseOp(s)
			last := i == len(hist)-1
			if last && spec.PreLast != nil {
				spec.PreLast(h, op)
			}
			h.apply(op)
			if !last {
				// intermediate steps were checked as their own transitions; a
				// mismatch here is reported there. Settle briefly.
				time.Sleep(5 * time.Millisecond)
				if spec.WarmBetween != nil {
					// traffic between the commands (answers are not judged here): whatever the implementation remembers
					// from serving requests in an intermediate configuration must not influence the final one
					h.observe(*spec.WarmBetween)
				}
				continue
			}
			lastFailed = len(h.lastWant) > 0
			if v := h.resultViolation(spec.Prop, op); v != nil {
				extra = append(extra, *v)
			}
			time.Sleep(5 * time.Millisecond)
			o := h.observe(spec.Obs)
			extra = append(extra, h.checkObs(spec.Prop, o, spec.Clauses)...)
			if spec.Extra != nil {
				extra = append(extra, spec.Extra(h, op, o)...)
			}
		}
	}
	sc.Check = func(w *World) []Violation { return extra }
	sc.Outcome = func(w *World) string { return "" }
	r := runScenario(t, spec.Prop, sc, nil, false)
	return r, model, lastFailed
}

// exploreH enumerates every history up to spec.Depth. Every worker walks the
// whole tree on the model alone and runs the implementation for its share of
// the transitions (hash of the history modulo the number of shards).
func exploreH(t *testing.T, job *Job, res *Result, spec *HSpec) {
	res.Engine = "H"
	g := res.Gen
	if g == nil {
		g = &GenStats{Histogram: map[string]int{}, DistinctKeys: map[string]struct{}{}}
		res.Gen = g
	}
	if job.Replay != nil {
		r, m, _ := runHistory(t, spec, job.Replay.History)
		fmt.Printf("REPLAY history=%v\nMODEL %s\n", job.Replay.History, m.key())
		for _, v := range r.Violations {
			fmt.Printf("VIOLATED %s %s: %s\n", v.Property, v.Signature, v.Detail)
			g.Found = append(g.Found, &Found{Violation: v, History: job.Replay.History})
		}
		if r.Infra != "" {
			g.Infra = append(g.Infra, r.Infra)
		}
		g.Evaluations = 1
		return
	}
	budget := time.Duration(job.BudgetS) * time.Second
	if budget <= 0 {
		budget = 100 * time.Second
	}
	deadline := time.Now().Add(budget)
	nsh := job.NShards
	if nsh <= 0 {
		nsh = 1
	}
	found := map[string]*Found{}
	for _, f := range g.Found {
		found[f.Property+"|"+f.Signature] = f
	}
	states := map[string]struct{}{}
	var rec func(hist []string, depth int)
	rec = func(hist []string, depth int) {
		if depth >= spec.Depth || g.Capped {
			return
		}
		mh := &HWorld{World: &World{}, M: newModel(), allNames: map[string]bool{}}
		for _, s := range hist {
			mh.applyModel(parseOp(s))
		}
		ops := spec.Alphabet(mh.M, depth)
		for _, opS := range ops {
			nh := append(append([]string(nil), hist...), opS)
			nm := &HWorld{World: &World{}, M: mh.M.clone(), allNames: map[string]bool{}, opNo: mh.opNo}
			failed := len(nm.applyModel(parseOp(opS))) > 0
			if (spec.EvalOnly == nil || spec.EvalOnly(nh, failed)) && int(fnv32a(strings.Join(nh, ";"))%uint32(nsh)) == job.Shard {
				if time.Now().After(deadline) {
					g.Capped = true
					g.CapNote = "wall-clock budget reached at history " + strings.Join(nh, " ; ")
					return
				}
				r, _, _ := runHistory(t, spec, nh)
				g.Evaluations++
				g.Transitions++
				cls := "ok"
				if failed {
					cls = "rejected"
				}
				g.Histogram[parseOp(opS).Kind+":"+cls]++
				states[nm.M.key()] = struct{}{}
				g.DistinctKeys[nm.M.key()+" <- "+opS] = struct{}{}
				if len(nh) > g.Depth {
					g.Depth = len(nh)
				}
				if r.Infra != "" {
					g.Infra = append(g.Infra, strings.Join(nh, " ; ")+": "+r.Infra)
				}
				for _, v := range r.Violations {
					k := v.Property + "|" + v.Signature
					f := found[k]
					if f == nil || len(nh) < len(f.History) {
						c := 0
						if f != nil {
							c = f.Count
						}
						f = &Found{Violation: v, History: nh, Scenario: spec.Name, Count: c}
						found[k] = f
					}
					f.Count++
				}
				if len(g.Samples) < 3 && len(nh) == spec.Depth {
					g.Samples = append(g.Samples, map[string]any{"history": nh, "model_state": nm.M.key(), "violations": len(r.Violations)})
				}
			}
			if failed && !spec.ExtendFailed {
				continue
			}
			rec(nh, depth+1)
		}
	}
	rec(nil, 0)
	g.States += len(states)
	if g.StateSet == nil {
		g.StateSet = map[string]struct{}{}
	}
	for k := range states {
		g.StateSet[k] = struct{}{}
	}
	keys := make([]string, 0, len(found))
	for k := range found {
		keys = append(keys, k)
	}
	sort.Strings(keys)
	g.Found = nil
	for _, k := range keys {
		g.Found = append(g.Found, found[k])
	}
	g.Distinct = len(g.DistinctKeys)
}
