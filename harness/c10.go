//go:build verif

package server

import (
	"fmt"
	"net/http"
	"strings"
	"testing"
	"time"

	"github.com/basecamp/kamal-proxy/internal/verif/vsched"
	"github.com/basecamp/kamal-proxy/internal/verif/vsync"
)

func init() { checks["C10"] = checkC10 }

// independent parser of the first kamal-rollout cookie of a request (RFC 6265
// pair syntax, optional double quotes)
func firstRolloutCookie(headers [][2]string) (string, bool) {
	for _, kv := range headers {
		if !strings.EqualFold(kv[0], "Cookie") {
			continue
		}
		for _, part := range strings.Split(kv[1], ";") {
			part = strings.TrimSpace(part)
			name, val, ok := strings.Cut(part, "=")
			if !ok || name != "kamal-rollout" {
				continue
			}
			if len(val) >= 2 && val[0] == '"' && val[len(val)-1] == '"' {
				val = val[1 : len(val)-1]
			}
			return val, true
		}
	}
	return "", false
}

func c10V1() []string {
	alpha := "ab1-"
	res := []string{}
	var gen func(p string, n int)
	gen = func(p string, n int) {
		if p != "" {
			res = append(res, p)
		}
		if n == 0 {
			return
		}
		for _, ch := range alpha {
			gen(p+string(ch), n-1)
		}
	}
	gen("", 3)
	return res
}

const c10Host = "r.example.com"

func c10Setup(w *World) error {
	w.AddTarget("act1:80")
	w.AddTarget("act2:80")
	w.AddTarget("roll1:80")
	w.AddTarget("roll2:80")
	if r := w.Deploy(deployArgs("s1", []string{"act1:80"}, []string{c10Host}, nil)); r.Err != nil {
		return r.Err
	}
	if r := w.RolloutDeploy("s1", []string{"roll1:80"}); r.Err != nil {
		return r.Err
	}
	return nil
}

func c10Side(w *World, hdr [][2]string) (string, *ReqObs) {
	o := w.Do(ReqSpec{ID: "-", Host: c10Host, Path: "/", Header: hdr})
	switch {
	case o.Status == 200 && strings.HasPrefix(o.ServedBy(), "roll"):
		return "rollout", o
	case o.Status == 200 && strings.HasPrefix(o.ServedBy(), "act"):
		return "active", o
	}
	return fmt.Sprintf("status-%d", o.Status), o
}

func cookieHdr(v string) [][2]string { return [][2]string{{"Cookie", "kamal-rollout=" + v}} }

// one case = one (allowlist) x all percentages for a slice of values: the
// monotonicity and stickiness oracles need the whole percentage axis
func c10ValuesCase(values []string, allow []string, label string) func(w *World) []Violation {
	return func(w *World) []Violation {
		var vs []Violation
		add := func(sig, d string) { vs = append(vs, Violation{"C10", sig, label + ": " + d}) }
		inAllow := map[string]bool{}
		for _, a := range allow {
			inAllow[a] = true
		}
		prev := map[string]bool{}
		for p := 0; p <= 100; p++ {
			if r := w.RolloutSet("s1", p, allow); r.Err != nil {
				add("rollout-set-failed", r.Err.Error())
				return vs
			}
			for _, v := range values {
				side, o := c10Side(w, cookieHdr(v))
				in := side == "rollout"
				if side != "rollout" && side != "active" {
					add("request-failed-under-split", fmt.Sprintf("v=%q p=%d: %s", v, p, o.Summary()))
					continue
				}
				if prev[v] && !in {
					add("not-monotone", fmt.Sprintf("value %q is included at %d%% but not at %d%%", v, p-1, p))
				}
				prev[v] = in
				if p == 100 && !in {
					add("100-percent-excludes-a-value", fmt.Sprintf("value %q", v))
				}
				if inAllow[v] && !in {
					add("allowlisted-value-excluded", fmt.Sprintf("value %q at %d%%", v, p))
				}
				if p == 0 && !inAllow[v] && in && fnv32a(v) != 0 {
					add("0-percent-includes-a-value", fmt.Sprintf("value %q", v))
				}
				if p%25 == 0 {
					// sticky: asked again, same side
					for k := 0; k < 2; k++ {
						if s2, _ := c10Side(w, cookieHdr(v)); s2 != side {
							add("not-sticky", fmt.Sprintf("value %q at %d%%: %s then %s", v, p, side, s2))
						}
					}
				}
			}
		}
		return vs
	}
}

// cookie header shapes at a fixed split: allowlist [in], 0%
func c10ShapesCase(w *World) []Violation {
	var vs []Violation
	add := func(sig, d string) { vs = append(vs, Violation{"C10", sig, d}) }
	if r := w.RolloutSet("s1", 0, []string{"in"}); r.Err != nil {
		add("rollout-set-failed", r.Err.Error())
		return vs
	}
	shapes := [][][2]string{
		nil,
		{{"Cookie", "other=1"}},
		{{"Cookie", "kamal-rollout=in; other=1"}},
		{{"Cookie", "other=1; kamal-rollout=in"}},
		{{"Cookie", "a=1; kamal-rollout=in; b=2"}},
		{{"Cookie", "kamal-rollout=out; kamal-rollout=in"}},
		{{"Cookie", "kamal-rollout=in; kamal-rollout=out"}},
		{{"Cookie", "a=1"}, {"Cookie", "kamal-rollout=in"}},
		{{"Cookie", "garbage; =x; kamal-rollout=in"}},
		{{"Cookie", "Kamal-Rollout=in"}},
		{{"Cookie", "kamal-rollout="}},
		{{"Cookie", `kamal-rollout="in"`}},
		{{"Cookie", "kamal-rollout=in=x"}},
		{{"Cookie", "kamal-rollout=i%6E"}},
		{{"Cookie", "xkamal-rollout=in"}},
		{{"Cookie", "kamal-rollout =in"}},
		{{"X-Cookie", "kamal-rollout=in"}},
		{{"Cookie", "kamal-rollout=" + strings.Repeat("z", 255)}},
	}
	for i, sh := range shapes {
		v, has := firstRolloutCookie(sh)
		want := "active"
		if has && v == "in" {
			want = "rollout"
		}
		side, o := c10Side(w, sh)
		// two leniencies where cookie syntax is ambiguous: a name followed by a space, and duplicate cookies
		ambiguous := i == 5 || i == 6 || i == 15
		if side != want && !ambiguous {
			add(fmt.Sprintf("cookie-shape-%d want=%s got=%s", i, want, side), fmt.Sprintf("headers %q: %s", sh, o.Summary()))
		}
		if s2, _ := c10Side(w, sh); s2 != side {
			add("not-sticky", fmt.Sprintf("headers %q: %s then %s", sh, side, s2))
		}
	}
	// no split / rollout stop: everything goes to active
	w.RolloutStop("s1")
	for _, sh := range [][][2]string{cookieHdr("in"), nil} {
		if side, o := c10Side(w, sh); side != "active" {
			add("rollout-traffic-after-rollout-stop", fmt.Sprintf("headers %q: %s", sh, o.Summary()))
		}
	}
	return vs
}

// stickiness across redeploys and restart
func c10RedeployCase(w *World) []Violation {
	var vs []Violation
	add := func(sig, d string) { vs = append(vs, Violation{"C10", sig, d}) }
	vals := []string{"a", "b", "1", "-", "ab", "a1-", "user-17", "0", "99999"}
	for _, p := range []int{0, 37, 50, 100} {
		w.RolloutSet("s1", p, []string{"ab"})
		before := map[string]string{}
		for _, v := range vals {
			before[v], _ = c10Side(w, cookieHdr(v))
		}
		steps := []struct {
			name string
			f    func() error
		}{
			{"redeploy-active", func() error { return w.Deploy(deployArgs("s1", []string{"act2:80"}, []string{c10Host}, nil)).Err }},
			{"redeploy-rollout", func() error { return w.RolloutDeploy("s1", []string{"roll2:80"}).Err }},
			{"restart", func() error {
				for _, s := range w.Router.services.services {
					s.Dispose()
				}
				return w.Restart()
			}},
			{"redeploy-active-back", func() error { return w.Deploy(deployArgs("s1", []string{"act1:80"}, []string{c10Host}, nil)).Err }},
			{"redeploy-rollout-back", func() error { return w.RolloutDeploy("s1", []string{"roll1:80"}).Err }},
		}
		for _, st := range steps {
			if err := st.f(); err != nil {
				add("step-failed "+st.name, err.Error())
				return vs
			}
			for _, v := range vals {
				if s, o := c10Side(w, cookieHdr(v)); s != before[v] {
					add("side-changed-by-"+st.name, fmt.Sprintf("value %q at %d%%: %s before, %s after (%s)", v, p, before[v], s, o.Summary()))
				}
			}
			if s, _ := c10Side(w, nil); s != "active" {
				add("cookieless-request-not-active after "+st.name, s)
			}
		}
	}
	return vs
}

// share of a fixed population at every percentage, through the rollout
// controller itself (hash only; 2 percentage points as in the repository's own test)
func c10ShareCase(n int, pcts []int) func(w *World) []Violation {
	return func(w *World) []Violation {
		var vs []Violation
		req, _ := http.NewRequest("GET", "http://r.example.com/", nil)
		prev := make([]bool, n)
		for _, p := range pcts {
			rc := NewRolloutController(p, nil)
			in := 0
			for i := 0; i < n; i++ {
				req.Header["Cookie"] = []string{"kamal-rollout=" + fmt.Sprint(i)}
				use := rc.RequestUsesRolloutGroup(req)
				if use {
					in++
				}
				if p > pcts[0] && prev[i] && !use {
					vs = append(vs, Violation{"C10", "not-monotone", fmt.Sprintf("id %d included at %d%% but not at %d%%", i, p-1, p)})
				}
				prev[i] = use
			}
			share := 100 * float64(in) / float64(n)
			if share < float64(p)-2 || share > float64(p)+2 {
				vs = append(vs, Violation{"C10", "share-off", fmt.Sprintf("at %d%% the included share of ids 0..%d is %.2f%%", p, n-1, share)})
			}
		}
		return vs
	}
}

// c10UnhealthyGroup: the target set a request belongs to has no healthy target; the request is not handed to the
// other group instead (it is answered 503 by the proxy, which is C09's business; here only the side matters).
// c10HashExtremes: "100% includes every value" also for the values the split function maps to its largest result
// (FNV-1a 32-bit = 0xFFFFFFFF; found by a preimage search), with and without an allowlist.
func c10HashExtremes(w *World) []Violation {
	var vs []Violation
	for _, allow := range [][]string{nil, {"someone-else"}} {
		if r := w.RolloutSet("s1", 100, allow); r.Err != nil {
			return []Violation{{"C10", "rollout-set-failed", r.Err.Error()}}
		}
		for _, v := range []string{"DlJaaag", "T4Lcapd", "KhgSarV", "a", "zzzzzzzzzzzzzzzzzzzzzzzzzzzzzzzz"} {
			if side, o := c10Side(w, cookieHdr(v)); side != "rollout" {
				vs = append(vs, Violation{"C10", "value-excluded-at-100-percent", fmt.Sprintf("cookie value %q at 100%% (allowlist %v) went to %s: %s", v, allow, side, o.Summary())})
			}
		}
	}
	return vs
}

func c10UnhealthyGroup(sick string) func(w *World) []Violation {
	return func(w *World) []Violation {
		var vs []Violation
		host := "u-" + sick + ".example.com"
		act, roll := "uact-"+sick+":80", "uroll-"+sick+":80"
		if sick == "rollout" {
			w.AddTarget(act)
			w.AddTarget(roll, pOK(), p500())
		} else {
			w.AddTarget(act, pOK(), p500())
			w.AddTarget(roll)
		}
		svc := "su" + sick
		if r := w.Deploy(deployArgs(svc, []string{act}, []string{host}, nil)); r.Err != nil {
			return []Violation{{"C10", "setup", r.Err.Error()}}
		}
		if r := w.RolloutDeploy(svc, []string{roll}); r.Err != nil {
			return []Violation{{"C10", "setup", r.Err.Error()}}
		}
		w.RolloutSet(svc, 0, []string{"v"})
		time.Sleep(2*vI + 300*time.Millisecond)
		for _, ck := range []string{"v", ""} {
			spec := ReqSpec{Host: host, Path: "/", Plan: "chunked"}
			if ck != "" {
				spec.Cookie = "kamal-rollout=" + ck
			}
			o := w.Do(spec)
			own, other := act, roll
			if ck != "" {
				own, other = roll, act
			}
			ownSick := (ck != "") == (sick == "rollout")
			switch {
			case o.ServedBy() == other:
				vs = append(vs, Violation{"C10", "request-handed-to-the-other-group unhealthy-" + sick, fmt.Sprintf("cookie %q belongs to %s (which has %s healthy target) but was served by %s: %s", ck, own, map[bool]string{true: "no", false: "a"}[ownSick], other, o.Summary())})
			case !ownSick && (o.Status != 200 || o.ServedBy() != own):
				vs = append(vs, Violation{"C10", "request-not-served-by-its-healthy-group unhealthy-" + sick, fmt.Sprintf("cookie %q: %s", ck, o.Summary())})
			}
		}
		return vs
	}
}

func c10Cases(tier string) []ECase {
	var cases []ECase
	v1 := c10V1()
	chunk := 12
	for i := 0; i < len(v1); i += chunk {
		end := i + chunk
		if end > len(v1) {
			end = len(v1)
		}
		vals := v1[i:end]
		for ai, allow := range [][]string{nil, {vals[0]}, {"not-a-value"}} {
			if tier == "quick" && ai == 2 && i%24 != 0 {
				continue
			}
			label := fmt.Sprintf("values=%v allow=%v all percentages", vals, allow)
			cases = append(cases, ECase{Name: label, Class: fmt.Sprintf("values allow=%d", ai), Run: c10ValuesCase(vals, allow, label), Weight: 101 * len(vals)})
		}
	}
	cases = append(cases, ECase{Name: "cookie header shapes", Class: "shapes", Run: c10ShapesCase})
	cases = append(cases, ECase{Name: "redeploys and restart", Class: "redeploy", Run: c10RedeployCase})
	cases = append(cases, ECase{Name: "values with the largest hash at 100%", Class: "hash-extremes", Run: c10HashExtremes})
	for _, sick := range []string{"rollout", "active"} {
		cases = append(cases, ECase{Name: "no healthy target in the " + sick + " group", Class: "unhealthy-group " + sick, Run: c10UnhealthyGroup(sick)})
	}
	n := 20000
	if tier == "thorough" {
		n = 100000
	}
	for p0 := 0; p0 <= 100; p0 += 6 {
		var pcts []int
		for p := p0; p < p0+7 && p <= 100; p++ {
			pcts = append(pcts, p)
		}
		cases = append(cases, ECase{Name: fmt.Sprintf("share ids 0..%d pct %d..%d", n-1, pcts[0], pcts[len(pcts)-1]), Class: fmt.Sprintf("share %d", p0), Run: c10ShareCase(n, pcts), Weight: n * len(pcts)})
	}
	return cases
}

func c10HSpec(tier string) *HSpec {
	depth := 4
	if tier == "thorough" {
		depth = 5
	}
	alpha := []string{"deploy s1 h=a.example.com p=/", "rdeploy s1 n=1", "rdeploy s1 n=2", "rset s1 pct=0 allow=v", "rset s1 pct=100 allow=-", "rset s1 pct=0 allow=-", "rstop s1", "remove s1", "restart",
		// failing commands in the middle of a history: the split and the rollout targets must survive them
		"rdeploy s1 n=1 bad=unhealthy-all", "deploy s1 h=a.example.com p=/ bad=unhealthy-all"}
	// ExtendFailed: a rejected command (split before rollout targets exist, unknown service) must not influence what follows
	spec := &HSpec{Prop: "C10", Name: "C10-H", Depth: depth, ExtendFailed: true,
		Obs:     ObsSpec{Hosts: []string{"a.example.com"}, Paths: []string{"/"}, Cookies: []string{"", "v", "w"}, TLS: []bool{false}},
		Clauses: map[string]bool{"routing": true, "target-set": true, "gate": true},
	}
	spec.Alphabet = func(m *Model, d int) []string {
		if d == 0 {
			return alpha[:1]
		}
		var out []string
		for _, a := range alpha {
			if a == "restart" && len(m.Services) == 0 {
				continue
			}
			out = append(out, a) // failing commands (split before rollout deploy, unknown service) included
		}
		return out
	}
	return spec
}

// ---- engine S part: a rollout command racing with opted-in requests; afterwards the command's effect holds

func c10Scenario(cmd string) *Scenario {
	sc := &Scenario{Name: "C10-S opted-in requests || " + cmd, Horizon: 30 * time.Second}
	const host = "a.example.com"
	var after []*ReqObs
	sc.Run = func(w *World) {
		after = nil
		w.AddTarget("oa:80")
		w.AddTarget("ra:80")
		w.AddTarget("rb:80")
		w.Deploy(deployArgs("s1", []string{"oa:80"}, []string{host}, nil))
		w.RolloutDeploy("s1", []string{"ra:80"})
		if cmd != "set-first" {
			w.RolloutSet("s1", 100, nil)
		}
		time.Sleep(100 * time.Millisecond)
		var wg vsync.WaitGroup
		w.S.SetWindow(true)
		wg.Add(3)
		for i := 0; i < 2; i++ {
			i := i
			vsched.GoTagged("client", func() {
				defer wg.Done()
				w.Do(ReqSpec{ID: fmt.Sprintf("racing%d", i), Host: host, Cookie: "kamal-rollout=v"})
			})
		}
		vsched.GoTagged("cmd", func() {
			defer wg.Done()
			switch cmd {
			case "stop":
				w.RolloutStop("s1")
			case "set-0":
				w.RolloutSet("s1", 0, nil)
			case "set-first":
				w.RolloutSet("s1", 100, nil)
			case "redeploy-rollout":
				w.RolloutDeploy("s1", []string{"rb:80"})
			}
		})
		wg.Wait()
		w.S.SetWindow(false)
		for i := 0; i < 2; i++ {
			after = append(after, w.Do(ReqSpec{ID: fmt.Sprintf("after%d", i), Host: host, Cookie: "kamal-rollout=v"}))
		}
	}
	sc.Check = func(w *World) []Violation {
		var vs []Violation
		want := map[string]string{"stop": "oa:80", "set-0": "oa:80", "set-first": "ra:80", "redeploy-rollout": "rb:80"}[cmd]
		for _, r := range after {
			if r.Status != 200 || r.ServedBy() != want {
				vs = append(vs, Violation{"C10", "split-after-command-not-in-force " + cmd, fmt.Sprintf("after `rollout %s` returned (it raced with opted-in requests) an opted-in request got %s, expected %s", cmd, r.Summary(), want)})
			}
		}
		return vs
	}
	return sc
}

// c10DuringRolloutDeploy: a rollout redeploy is waiting for its new target to become healthy (one probe interval)
// when `rollout stop` / `rollout set` is issued and returns; when the redeploy has returned too, the split is the one
// the later command put in force, applied to the new rollout target.
func c10DuringRolloutDeploy(second string) *Scenario {
	sc := &Scenario{Name: "C10-S rollout redeploy waiting for health || " + second, Horizon: 30 * time.Second}
	const host = "a.example.com"
	var after map[string]*ReqObs
	var cmdErr error
	sc.Run = func(w *World) {
		after, cmdErr = map[string]*ReqObs{}, nil
		w.AddTarget("oa:80")
		w.AddTarget("ra:80")
		w.AddTarget("rb:80", p500(), pOK())
		w.Deploy(deployArgs("s1", []string{"oa:80"}, []string{host}, nil))
		w.RolloutDeploy("s1", []string{"ra:80"})
		w.RolloutSet("s1", 0, []string{"v"})
		time.Sleep(100 * time.Millisecond)
		var wg vsync.WaitGroup
		wg.Add(2)
		w.S.SetWindow(true)
		vsched.GoTagged("cmd", func() {
			defer wg.Done()
			w.RolloutDeploy("s1", []string{"rb:80"})
		})
		time.Sleep(200 * time.Millisecond)
		vsched.GoTagged("cmd", func() {
			defer wg.Done()
			var c *CmdObs
			switch second {
			case "stop":
				c = w.RolloutStop("s1")
			case "set-allow-w":
				c = w.RolloutSet("s1", 0, []string{"w"})
			case "set-100":
				c = w.RolloutSet("s1", 100, nil)
			}
			cmdErr = c.Err
		})
		wg.Wait()
		w.S.SetWindow(false)
		for _, ck := range []string{"v", "w", ""} {
			spec := ReqSpec{ID: "after-" + ck, Host: host}
			if ck != "" {
				spec.Cookie = "kamal-rollout=" + ck
			}
			after[ck] = w.Do(spec)
		}
	}
	sc.Check = func(w *World) []Violation {
		var vs []Violation
		if cmdErr != nil {
			return []Violation{{"C10", "rollout-command-failed during-rollout-deploy " + second, cmdErr.Error()}}
		}
		want := map[string]map[string]string{
			"stop":        {"v": "oa:80", "w": "oa:80", "": "oa:80"},
			"set-allow-w": {"v": "oa:80", "w": "rb:80", "": "oa:80"},
			"set-100":     {"v": "rb:80", "w": "rb:80", "": "oa:80"},
		}[second]
		for _, ck := range []string{"v", "w", ""} {
			r := after[ck]
			if r == nil || w.HadStall() {
				continue
			}
			if r.Status != 200 || r.ServedBy() != want[ck] {
				vs = append(vs, Violation{"C10", "split-after-command-not-in-force during-rollout-deploy " + second, fmt.Sprintf("`rollout %s` returned while a rollout redeploy was waiting for its target; after both returned a request with cookie value %q got %s, expected %s", second, ck, r.Summary(), want[ck])})
			}
		}
		return vs
	}
	return sc
}

// c10HeldAcrossSplitChange: requests (with and without the cookie) are held by a pause while `rollout stop` /
// `rollout set` / a rollout redeploy changes the split; released by resume they follow the split in force then.
func c10HeldAcrossSplitChange(change string) *Scenario {
	sc := &Scenario{Name: "C10-S requests held by a pause while the split changes: " + change, Horizon: 30 * time.Second}
	const host = "a.example.com"
	held := map[string]*ReqObs{}
	sc.Run = func(w *World) {
		held = map[string]*ReqObs{}
		w.AddTarget("oa:80")
		w.AddTarget("ra:80")
		w.AddTarget("rb:80")
		w.Deploy(deployArgs("s1", []string{"oa:80"}, []string{host}, nil))
		w.RolloutDeploy("s1", []string{"ra:80"})
		w.RolloutSet("s1", 0, []string{"v"})
		w.Pause("s1", vD, vMaxPause)
		var wg vsync.WaitGroup
		for _, ck := range []string{"v", "w", ""} {
			ck := ck
			wg.Add(1)
			vsched.GoTagged("client", func() {
				defer wg.Done()
				spec := ReqSpec{ID: "held-" + ck, Host: host}
				if ck != "" {
					spec.Cookie = "kamal-rollout=" + ck
				}
				r := w.Do(spec)
				w.mu.Lock()
				held[ck] = r
				w.mu.Unlock()
			})
		}
		time.Sleep(200 * time.Millisecond)
		w.S.SetWindow(true)
		switch change {
		case "stop":
			w.RolloutStop("s1")
		case "set-allow-w":
			w.RolloutSet("s1", 0, []string{"w"})
		case "set-100":
			w.RolloutSet("s1", 100, nil)
		case "redeploy-rollout":
			w.RolloutDeploy("s1", []string{"rb:80"})
		}
		w.Resume("s1")
		wg.Wait()
		w.S.SetWindow(false)
	}
	sc.Check = func(w *World) []Violation {
		var vs []Violation
		want := map[string]map[string]string{
			"stop":             {"v": "oa:80", "w": "oa:80", "": "oa:80"},
			"set-allow-w":      {"v": "oa:80", "w": "ra:80", "": "oa:80"},
			"set-100":          {"v": "ra:80", "w": "ra:80", "": "oa:80"},
			"redeploy-rollout": {"v": "rb:80", "w": "oa:80", "": "oa:80"},
		}[change]
		for _, ck := range []string{"v", "w", ""} {
			r := held[ck]
			if r == nil || !r.Done {
				continue
			}
			if r.Status != 200 || r.ServedBy() != want[ck] {
				vs = append(vs, Violation{"C10", "held-request-follows-a-superseded-split " + change, fmt.Sprintf("request with cookie value %q was held by a pause while `rollout %s` ran; released by resume it got %s, expected %s", ck, change, r.Summary(), want[ck])})
			}
		}
		return vs
	}
	return sc
}

func checkC10(t *testing.T, job *Job, res *Result) {
	tier := job.Tier
	if job.Replay != nil {
		tier = job.Replay.Tier
	}
	res.Rule = "engine E, through the real handler chain with active and rollout targets deployed: every cookie value of length<=3 over {a,b,1,-} (84) x ALL percentages 0..100 x allowlists {[], [v], [other]}; oracle: monotone in the percentage, 100% includes everything, allowlisted values always included, 0% includes only allowlisted values, same answer when asked again; 18 cookie-header shapes against an independent cookie parser; side unchanged by redeploying either target set and by restart at 4 percentages; share of ids 0..N-1 within 2 points of every percentage (N=20000 quick, 100000 thorough); engine H: histories over deploy / rollout deploy / set / stop / remove / restart (failing commands included) with the reference model deciding which target set answers cookie and cookie-less requests"
	res.Bounds = "see rule"
	if job.Replay == nil || job.Replay.Engine == "E" {
		runE(t, job, res, &ESpec{Prop: "C10", Setup: c10Setup, Cases: c10Cases(tier), Batch: 1})
	}
	if job.Replay == nil || job.Replay.Engine == "H" {
		spec := c10HSpec(tier)
		exploreH(t, job, res, spec)
	}
	if job.Replay == nil || job.Replay.Engine == "S" {
		var scs []*Scenario
		for _, c := range []string{"stop", "set-0", "set-first", "redeploy-rollout"} {
			scs = append(scs, c10Scenario(c))
		}
		for _, c := range []string{"stop", "set-allow-w", "set-100"} {
			scs = append(scs, c10DuringRolloutDeploy(c))
		}
		for _, c := range []string{"stop", "set-allow-w", "set-100", "redeploy-rollout"} {
			scs = append(scs, c10HeldAcrossSplitChange(c))
		}
		b := Bounds{D: 2, S: 0}
		if tier == "thorough" {
			b = Bounds{D: 3, S: 0}
		}
		runS(t, job, res, "C10", withReversed(scs), b, 0)
	}
	res.Engine = "E+H+S"
	res.Rule += "; engine S: rollout stop / set / first set / rollout redeploy racing with two opted-in requests, every schedule within the bounds: opted-in requests issued after the command returned follow the command; rollout stop / set issued and completed while a rollout redeploy waits for its target's health: the later command's split is in force afterwards"
}
