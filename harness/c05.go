//go:build verif

package server

import (
	"errors"
	"fmt"
	"sort"
	"strings"
	"testing"
	"time"

	"github.com/basecamp/kamal-proxy/internal/verif/vsched"
	"github.com/basecamp/kamal-proxy/internal/verif/vsync"
)

func init() { checks["C05"] = checkC05 }

type c05claim struct {
	hosts []string
	paths []string
}

type c05cfg struct {
	name     string
	owner    *c05claim // a third service deployed beforehand (may be nil)
	racers   []c05claim
	redeploy bool // racer 0 is a redeploy of an existing service moving onto the contested pair
}

func (c c05cfg) String() string {
	var p []string
	for _, r := range c.racers {
		p = append(p, fmt.Sprintf("%v%v", r.hosts, r.paths))
	}
	o := "none"
	if c.owner != nil {
		o = fmt.Sprintf("%v%v", c.owner.hosts, c.owner.paths)
	}
	return fmt.Sprintf("%s owner=%s racers=%s redeploy=%v", c.name, o, strings.Join(p, " vs "), c.redeploy)
}

func pairsOf(c c05claim) []string {
	hosts := c.hosts
	if len(hosts) == 0 {
		hosts = []string{""}
	}
	paths := c.paths
	if len(paths) == 0 {
		paths = []string{"/"}
	}
	var res []string
	for _, h := range hosts {
		for _, p := range paths {
			res = append(res, h+"|"+p)
		}
	}
	return res
}

func claimsConflict(a, b c05claim) bool {
	for _, x := range pairsOf(a) {
		for _, y := range pairsOf(b) {
			if x == y {
				return true
			}
		}
	}
	return false
}

func c05Configs(tier string) []c05cfg {
	A, B, C := "a.example.com", "b.example.com", "c.example.com"
	cfgs := []c05cfg{
		{name: "identical-host", racers: []c05claim{{hosts: []string{A}}, {hosts: []string{A}}}},
		{name: "default-host", racers: []c05claim{{}, {}}},
		{name: "one-shared-of-several", racers: []c05claim{{hosts: []string{A, B}}, {hosts: []string{B, C}}}},
		{name: "shared-path", racers: []c05claim{{hosts: []string{A}, paths: []string{"/", "/api"}}, {hosts: []string{A}, paths: []string{"/api"}}}},
		{name: "wildcard", racers: []c05claim{{hosts: []string{"*.example.com"}}, {hosts: []string{"*.example.com", B}}}},
		{name: "owned-by-third", owner: &c05claim{hosts: []string{A}}, racers: []c05claim{{hosts: []string{A}}, {hosts: []string{A, B}}}},
		{name: "disjoint", racers: []c05claim{{hosts: []string{A}}, {hosts: []string{B}}}},
		{name: "redeploy-moves-onto-contested", racers: []c05claim{{hosts: []string{B}}, {hosts: []string{B}}}, redeploy: true},
		{name: "three-identical", racers: []c05claim{{hosts: []string{A}}, {hosts: []string{A}}, {hosts: []string{A}}}},
	}
	if tier != "quick" {
		cfgs = append(cfgs,
			c05cfg{name: "chain", racers: []c05claim{{hosts: []string{A, B}}, {hosts: []string{B, C}}, {hosts: []string{C, "d.example.com"}}}},
			c05cfg{name: "three-default", racers: []c05claim{{}, {}, {}}},
			c05cfg{name: "owned-default", owner: &c05claim{}, racers: []c05claim{{}, {paths: []string{"/api"}}}},
			c05cfg{name: "paths-only", racers: []c05claim{{paths: []string{"/api", "/v2"}}, {paths: []string{"/v2"}}}},
		)
	}
	return cfgs
}

func c05Scenario(c c05cfg) *Scenario {
	sc := &Scenario{Name: "C05 " + c.String(), Horizon: 60 * time.Second}
	var results []*CmdObs
	var listed ServiceDescriptionMap
	probes := map[string]*ReqObs{}
	sc.Run = func(w *World) {
		results = make([]*CmdObs, len(c.racers))
		probes = map[string]*ReqObs{}
		if c.owner != nil {
			w.AddTarget("own:80")
			if r := w.Deploy(deployArgs("owner", []string{"own:80"}, c.owner.hosts, c.owner.paths)); r.Err != nil {
				w.Note("setup: %v", r.Err)
				return
			}
		}
		if c.redeploy {
			w.AddTarget("r0old:80")
			if r := w.Deploy(deployArgs("svc0", []string{"r0old:80"}, []string{"old.example.com"}, nil)); r.Err != nil {
				w.Note("setup: %v", r.Err)
				return
			}
		}
		for i := range c.racers {
			w.AddTarget(fmt.Sprintf("r%d:80", i))
		}
		time.Sleep(100 * time.Millisecond)
		var wg vsync.WaitGroup
		w.S.SetWindow(true)
		for i, r := range c.racers {
			wg.Add(1)
			i, r := i, r
			vsched.GoTagged("cmd", func() {
				defer wg.Done()
				results[i] = w.Deploy(deployArgs(fmt.Sprintf("svc%d", i), []string{fmt.Sprintf("r%d:80", i)}, r.hosts, r.paths))
			})
		}
		wg.Wait()
		w.S.SetWindow(false)
		time.Sleep(200 * time.Millisecond)
		listed, _ = w.List()
		// probe matrix over every claimed pair
		seen := map[string]bool{}
		all := append([]c05claim{}, c.racers...)
		if c.owner != nil {
			all = append(all, *c.owner)
		}
		for _, cl := range all {
			for _, p := range pairsOf(cl) {
				if seen[p] {
					continue
				}
				seen[p] = true
				h, path, _ := strings.Cut(p, "|")
				host := h
				if host == "" {
					host = "unbound.example.org"
				}
				host = strings.Replace(host, "*", "x", 1)
				probes[p] = w.Do(ReqSpec{ID: "probe-" + p, Host: host, Path: strings.TrimSuffix(path, "/") + "/x"})
			}
		}
	}
	sc.Check = func(w *World) []Violation {
		var vs []Violation
		for _, n := range w.Notes {
			vs = append(vs, Violation{"C05", "setup", n})
		}
		if len(vs) > 0 {
			return vs
		}
		var winners []int
		for i, r := range results {
			if r == nil || !r.Done {
				return vs
			}
			if r.Err == nil {
				winners = append(winners, i)
			} else if !errors.Is(r.Err, ErrorHostInUse) {
				vs = append(vs, Violation{"C05", "unexpected-error", fmt.Sprintf("svc%d: %v", i, r.Err)})
			}
		}
		// winners must be pairwise conflict-free and must not conflict with the owner
		for x := 0; x < len(winners); x++ {
			if c.owner != nil && claimsConflict(c.racers[winners[x]], *c.owner) {
				vs = append(vs, Violation{"C05", "deploy-accepted-on-owned-pair", fmt.Sprintf("svc%d succeeded although %v is owned by another service", winners[x], pairsOf(*c.owner))})
			}
			for y := x + 1; y < len(winners); y++ {
				if claimsConflict(c.racers[winners[x]], c.racers[winners[y]]) {
					vs = append(vs, Violation{"C05", "two-racing-deploys-both-succeeded", fmt.Sprintf("svc%d and svc%d both succeeded on overlapping bindings", winners[x], winners[y])})
				}
			}
		}
		// every loser must be justified by a conflict with a winner or the owner
		isWinner := map[int]bool{}
		for _, x := range winners {
			isWinner[x] = true
		}
		for i := range c.racers {
			if isWinner[i] {
				continue
			}
			just := c.owner != nil && claimsConflict(c.racers[i], *c.owner)
			for _, x := range winners {
				if claimsConflict(c.racers[i], c.racers[x]) {
					just = true
				}
			}
			if !just {
				vs = append(vs, Violation{"C05", "deploy-rejected-without-conflicting-owner", fmt.Sprintf("svc%d was rejected (%v) but no successful service owns any of its pairs; winners=%v", i, results[i].Err, winners)})
			}
		}
		// ownership as routed
		owner := map[string]string{}
		if c.owner != nil {
			for _, p := range pairsOf(*c.owner) {
				owner[p] = "own:80"
			}
		}
		for _, x := range winners {
			for _, p := range pairsOf(c.racers[x]) {
				owner[p] = fmt.Sprintf("r%d:80", x)
			}
		}
		for p, r := range probes {
			want := owner[p]
			got := r.ServedBy()
			if want != "" && (r.Status != 200 || got != want) {
				// a more specific pair may legitimately shadow: only exact pairs are probed, so none does
				vs = append(vs, Violation{"C05", "owned-pair-not-routed-to-owner", fmt.Sprintf("pair %s owned by %s but request got %s", p, want, r.Summary())})
			}
			if want == "" && got != "" {
				// un-owned pair may fall back to a less specific binding (default host / shorter prefix) of a winner: accept only those
				ok := false
				for _, o := range owner {
					if o == got {
						ok = true
					}
				}
				if !ok {
					vs = append(vs, Violation{"C05", "loser-left-routing-behind", fmt.Sprintf("pair %s is owned by nobody but is served by %s", p, got)})
				}
			}
		}
		// list shows exactly the winners (+owner, + svc0 when its redeploy lost)
		want := map[string]bool{}
		if c.owner != nil {
			want["owner"] = true
		}
		for _, x := range winners {
			want[fmt.Sprintf("svc%d", x)] = true
		}
		if c.redeploy {
			want["svc0"] = true
		}
		var got []string
		for n := range listed {
			got = append(got, n)
		}
		sort.Strings(got)
		if strings.Join(got, ",") != strings.Join(sortedKeys(want), ",") {
			vs = append(vs, Violation{"C05", "list-does-not-match-successful-deploys", fmt.Sprintf("list=%v expected=%v", got, sortedKeys(want))})
		}
		return vs
	}
	return sc
}

// c05RemoveScenario: the removal of one service races with a deploy of an
// unrelated one; afterwards (sequentially) a third service tries to take the
// pair the racing deploy bound, and a fourth takes the pair the removal freed.
func c05RemoveScenario(move bool) *Scenario {
	sc := &Scenario{Name: fmt.Sprintf("C05 remove-vs-deploy move=%v", move), Horizon: 60 * time.Second}
	O, X, Y := "o.example.com", "x.example.com", "y.example.com"
	var rm, dep, intruder, freed, moved *CmdObs
	var listed ServiceDescriptionMap
	var pBound, pFreed, pMoved *ReqObs
	sc.Run = func(w *World) {
		rm, dep, intruder, freed, moved = nil, nil, nil, nil, nil
		for _, n := range []string{"old:80", "r0:80", "r0b:80", "int:80", "fr:80", "mv:80"} {
			w.AddTarget(n)
		}
		if r := w.Deploy(deployArgs("old", []string{"old:80"}, []string{O}, nil)); r.Err != nil {
			w.Note("setup: %v", r.Err)
			return
		}
		bound := X
		if move {
			if r := w.Deploy(deployArgs("svc0", []string{"r0:80"}, []string{X}, nil)); r.Err != nil {
				w.Note("setup: %v", r.Err)
				return
			}
			bound = Y
		}
		time.Sleep(100 * time.Millisecond)
		var wg vsync.WaitGroup
		w.S.SetWindow(true)
		wg.Add(2)
		vsched.GoTagged("cmd", func() {
			defer wg.Done()
			rm = w.Remove("old")
		})
		vsched.GoTagged("cmd", func() {
			defer wg.Done()
			dep = w.Deploy(deployArgs("svc0", []string{"r0b:80"}, []string{bound}, nil))
		})
		wg.Wait()
		w.S.SetWindow(false)
		time.Sleep(200 * time.Millisecond)
		intruder = w.Deploy(deployArgs("intruder", []string{"int:80"}, []string{bound}, nil))
		freed = w.Deploy(deployArgs("freed", []string{"fr:80"}, []string{O}, nil))
		if move {
			moved = w.Deploy(deployArgs("moved", []string{"mv:80"}, []string{X}, nil))
		}
		time.Sleep(200 * time.Millisecond)
		listed, _ = w.List()
		pBound = w.Do(ReqSpec{ID: "probe-bound", Host: bound, Path: "/x"})
		pFreed = w.Do(ReqSpec{ID: "probe-freed", Host: O, Path: "/x"})
		if move {
			pMoved = w.Do(ReqSpec{ID: "probe-moved", Host: X, Path: "/x"})
		}
	}
	sc.Check = func(w *World) []Violation {
		var vs []Violation
		for _, n := range w.Notes {
			vs = append(vs, Violation{"C05", "setup", n})
		}
		if len(vs) > 0 || rm == nil || dep == nil || intruder == nil || freed == nil || !freed.Done {
			return vs
		}
		if rm.Err != nil || dep.Err != nil {
			vs = append(vs, Violation{"C05", "unexpected-error", fmt.Sprintf("remove: %v; deploy: %v (unrelated services)", rm.Err, dep.Err)})
			return vs
		}
		if intruder.Err == nil {
			vs = append(vs, Violation{"C05", "deploy-accepted-on-owned-pair", "a third service was deployed on the pair svc0 had just bound (svc0's deploy raced with the removal of an unrelated service)"})
		} else if !errors.Is(intruder.Err, ErrorHostInUse) {
			vs = append(vs, Violation{"C05", "unexpected-error", fmt.Sprintf("intruder: %v", intruder.Err)})
		}
		if freed.Err != nil {
			vs = append(vs, Violation{"C05", "deploy-rejected-without-conflicting-owner", fmt.Sprintf("the pair of the removed service is still taken: %v", freed.Err)})
		}
		if moved != nil && moved.Err != nil {
			vs = append(vs, Violation{"C05", "deploy-rejected-without-conflicting-owner", fmt.Sprintf("the pair svc0 moved away from is still taken: %v", moved.Err)})
		}
		if pBound.ServedBy() != "r0b:80" {
			vs = append(vs, Violation{"C05", "owned-pair-not-routed-to-owner", fmt.Sprintf("svc0's pair: %s", pBound.Summary())})
		}
		if freed.Err == nil && pFreed.ServedBy() != "fr:80" {
			vs = append(vs, Violation{"C05", "owned-pair-not-routed-to-owner", fmt.Sprintf("freed pair: %s", pFreed.Summary())})
		}
		if moved != nil && moved.Err == nil && pMoved.ServedBy() != "mv:80" {
			vs = append(vs, Violation{"C05", "owned-pair-not-routed-to-owner", fmt.Sprintf("pair svc0 left: %s", pMoved.Summary())})
		}
		want := map[string]bool{"svc0": true}
		if intruder.Err == nil {
			want["intruder"] = true
		}
		if freed.Err == nil {
			want["freed"] = true
		}
		if moved != nil && moved.Err == nil {
			want["moved"] = true
		}
		var got []string
		for n := range listed {
			got = append(got, n)
		}
		sort.Strings(got)
		if strings.Join(got, ",") != strings.Join(sortedKeys(want), ",") {
			vs = append(vs, Violation{"C05", "list-does-not-match-successful-deploys", fmt.Sprintf("list=%v expected=%v", got, sortedKeys(want))})
		}
		return vs
	}
	return sc
}

// c05SwapScenario: a redeploy of svc0 that keeps its bindings overlaps with "remove svc0; deploy svc1 on the
// same pair" issued by another operator. Whatever the order, at most one of them may own the pair in the end.
func c05SwapScenario(sameRoutes bool, rollout ...bool) *Scenario {
	viaRollout := len(rollout) > 0 && rollout[0]
	sc := &Scenario{Name: fmt.Sprintf("C05 redeploy-vs-remove+deploy sameRoutes=%v rollout=%v", sameRoutes, viaRollout), Horizon: 60 * time.Second}
	X := "x.example.com"
	var re, rm, other *CmdObs
	var listed ServiceDescriptionMap
	var pX *ReqObs
	sc.Run = func(w *World) {
		re, rm, other = nil, nil, nil
		for _, n := range []string{"r0:80", "r0b:80", "r1:80"} {
			w.AddTarget(n)
		}
		if r := w.Deploy(deployArgs("svc0", []string{"r0:80"}, []string{X}, nil)); r.Err != nil {
			w.Note("setup: %v", r.Err)
			return
		}
		time.Sleep(100 * time.Millisecond)
		var wg vsync.WaitGroup
		w.S.SetWindow(true)
		wg.Add(2)
		vsched.GoTagged("cmd", func() {
			defer wg.Done()
			hosts := []string{X}
			if !sameRoutes {
				hosts = []string{X, "y.example.com"}
			}
			if viaRollout {
				// a rollout deploy re-installs the service it looked up before waiting for its targets
				re = w.RolloutDeploy("svc0", []string{"r0b:80"})
				return
			}
			re = w.Deploy(deployArgs("svc0", []string{"r0b:80"}, hosts, nil))
		})
		vsched.GoTagged("cmd", func() {
			defer wg.Done()
			rm = w.Remove("svc0")
			other = w.Deploy(deployArgs("svc1", []string{"r1:80"}, []string{X}, nil))
		})
		wg.Wait()
		w.S.SetWindow(false)
		time.Sleep(200 * time.Millisecond)
		listed, _ = w.List()
		pX = w.Do(ReqSpec{ID: "probe-x", Host: X, Path: "/x"})
	}
	sc.Check = func(w *World) []Violation {
		var vs []Violation
		for _, n := range w.Notes {
			vs = append(vs, Violation{"C05", "setup", n})
		}
		if len(vs) > 0 || re == nil || rm == nil || other == nil || !re.Done || !other.Done || pX == nil {
			return vs
		}
		for _, c := range []*CmdObs{re, other} {
			if viaRollout && c == re && errors.Is(c.Err, ErrorServiceNotFound) {
				continue // the service was removed before the rollout deploy looked it up
			}
			if c.Err != nil && !errors.Is(c.Err, ErrorHostInUse) {
				vs = append(vs, Violation{"C05", "unexpected-error", fmt.Sprintf("%s %s: %v", c.Name, c.Args, c.Err)})
			}
		}
		_, has0 := listed["svc0"]
		_, has1 := listed["svc1"]
		if has0 && has1 {
			vs = append(vs, Violation{"C05", "two-racing-deploys-both-succeeded", fmt.Sprintf("svc0 and svc1 are both deployed on %s/ (redeploy: %v, deploy of svc1: %v)", X, re.Err, other.Err)})
		}
		if other.Err == nil && !has1 {
			vs = append(vs, Violation{"C05", "list-does-not-match-successful-deploys", "svc1 was deployed successfully and never removed but is not listed"})
		}
		if other.Err != nil && !has0 {
			vs = append(vs, Violation{"C05", "deploy-rejected-without-conflicting-owner", fmt.Sprintf("svc1 rejected (%v) but svc0 does not exist", other.Err)})
		}
		want := ""
		switch {
		case has1 && !has0:
			want = "r1:80"
		case has0 && !has1:
			want = "r0b:80"
			if viaRollout {
				want = "r0:80" // plain requests stay on the active target
			}
		}
		if want != "" && pX.ServedBy() != want {
			vs = append(vs, Violation{"C05", "owned-pair-not-routed-to-owner", fmt.Sprintf("%s/ is owned by the service with target %s but the request got %s", X, want, pX.Summary())})
		}
		if !has0 && !has1 && pX.ServedBy() != "" {
			vs = append(vs, Violation{"C05", "loser-left-routing-behind", fmt.Sprintf("nobody is listed on %s but a request was served by %s", X, pX.ServedBy())})
		}
		return vs
	}
	return sc
}

func checkC05(t *testing.T, job *Job, res *Result) {
	tier := job.Tier
	if job.Replay != nil {
		tier = job.Replay.Tier
	}
	if tier == "quick" || tier == "thorough" {
		// the history part (engine H) runs in the same check: see c05h.go
	}
	var scs []*Scenario
	for _, c := range c05Configs(tier) {
		scs = append(scs, c05Scenario(c))
	}
	scs = append(scs, c05RemoveScenario(false), c05RemoveScenario(true), c05SwapScenario(true), c05SwapScenario(false), c05SwapScenario(true, true))
	b := Bounds{D: 2, S: 0}
	if tier == "thorough" {
		b = Bounds{D: 3, S: 0}
	}
	res.Rule = "engine S part: 2-3 concurrent deploys of different services whose bindings overlap (identical host, default host, one shared of several, shared path, wildcard, owned by a third service, redeploy moving onto the pair); every schedule within the bounds; oracle: successful deploys pairwise conflict-free, every rejection justified by a successful owner, every owned pair routes to its owner, losers leave nothing routed, list = winners; plus the removal of a service racing with the deploy (or host-moving redeploy) of an unrelated one, followed sequentially by deploys that try to take the pair just bound (must be refused) and the pairs just freed (must succeed); plus a redeploy of a service (keeping or extending its bindings) racing with 'remove it; deploy another service on its pair'"
	if job.Replay == nil || job.Replay.Engine == "S" {
		runS(t, job, res, "C05", withReversed(scs), b, 0)
	}
	if job.Replay == nil || job.Replay.Engine == "H" {
		exploreH(t, job, res, c05HSpec(tier))
	}
	res.Engine = "S+H"
	res.Rule += "; engine H part: every history up to the depth bound over deploy/redeploy/remove of three services with bindings from {default, a.example.com, *.example.com, a+b, a host written with capitals} x {/, /api, /+/api, /app, /app+/api}; oracle: reference ownership map predicts each result (nil or host-in-use) and every cell of the routing matrix"
}

func c05HSpec(tier string) *HSpec {
	hosts := []string{"-", "a.example.com", "*.example.com", "a.example.com,b.example.com", "App.Example.com"} // the last one: a host written with capitals
	paths := []string{"/", "/api"}
	depth := 3
	if tier == "thorough" {
		paths = append(paths, "/,/api")
		depth = 4
	}
	names := []string{"s1", "s2", "s3"}
	var alpha []string
	for _, n := range names {
		for _, h := range hosts {
			for _, p := range paths {
				alpha = append(alpha, fmt.Sprintf("deploy %s h=%s p=%s", n, h, p))
			}
		}
		// two prefixes of equal length on one host (ordering by length alone cannot tell them apart)
		for _, h := range []string{"-", "a.example.com"} {
			alpha = append(alpha, fmt.Sprintf("deploy %s h=%s p=/app", n, h), fmt.Sprintf("deploy %s h=%s p=/app,/api", n, h))
		}
		alpha = append(alpha, "remove "+n)
	}
	// a service with three prefixes on two hosts, a second one beside it on one of the hosts, a third one claiming one
	// of its pairs on the other host
	alpha = append(alpha, "deploy s1 h=a.example.com,b.example.com p=/,/api,/admin", "deploy s2 h=a.example.com p=/blog", "deploy s3 h=b.example.com p=/", "deploy s3 h=b.example.com p=/admin")
	// commands that install a service again without claiming anything new, and a restart (the table is rebuilt)
	alpha = append(alpha, "rdeploy s1 n=1", "rdeploy s2 n=1", "restart")
	return &HSpec{
		Prop: "C05", Name: "C05-H", Depth: depth,
		Alphabet: func(m *Model, d int) []string {
			if d == 0 {
				// symmetry: the first command deploys s1 (names are interchangeable)
				var res []string
				for _, a := range alpha {
					if strings.HasPrefix(a, "deploy s1") {
						res = append(res, a)
					}
				}
				return res
			}
			return alpha
		},
		Obs:     ObsSpec{Hosts: []string{"a.example.com", "b.example.com:8080", "x.example.com", "other.org", "App.Example.com"}, Paths: []string{"/", "/api", "/api/x", "/apiary", "/app/y", "/admin/z", "/blog"}, Cookies: []string{""}, TLS: []bool{false}},
		Clauses: map[string]bool{"routing": true, "target-set": true, "list": true, "gate": true, "tls-policy": true},
	}
}
