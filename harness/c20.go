//go:build verif

package server

import (
	"fmt"
	"sort"
	"strings"
	"testing"
	"time"

	"github.com/basecamp/kamal-proxy/internal/verif/vsched"
	"github.com/basecamp/kamal-proxy/internal/verif/vsync"
)

// C20, engine S part: `list` prints exactly the deployed services also when a `list` overlapped a command that changes
// them (the rest of C20 - options, validation, exit codes, the printed table - runs against the built binary from
// cli/c20.py; the data `list` prints comes from Router.ListActiveServices, which this part drives directly).

func init() { checks["C20"] = checkC20 }

func c20ListSummary(l ServiceDescriptionMap) string {
	var parts []string
	for n, d := range l {
		parts = append(parts, fmt.Sprintf("%s host=%s path=%s target=%s state=%s tls=%v", n, d.Host, d.Path, d.Target, d.State, d.TLS))
	}
	sort.Strings(parts)
	return strings.Join(parts, "; ")
}

// c20ListDuring: one or two `list` commands overlap a command that changes the set of services, their targets or
// their state; once everything has returned, two more `list`s must describe the final configuration.
func c20ListDuring(cmd string, lists int, warm bool) *Scenario {
	sc := &Scenario{Name: fmt.Sprintf("C20-S %d list(s) || %s, listed before=%v", lists, cmd, warm), Horizon: 40 * time.Second}
	var after []string
	sc.Run = func(w *World) {
		after = nil
		for _, n := range []string{"oa:80", "xa:80", "na:80"} {
			w.AddTarget(n)
		}
		w.Deploy(deployArgs("s1", []string{"oa:80"}, []string{"a.example.com"}, nil))
		w.Deploy(deployArgs("s2", []string{"xa:80"}, []string{"b.example.com"}, []string{"/api"}))
		if warm {
			w.List() // whatever `list` remembers is in place
		}
		time.Sleep(100 * time.Millisecond)
		var wg vsync.WaitGroup
		w.S.SetWindow(true)
		for i := 0; i < lists; i++ {
			wg.Add(1)
			vsched.GoTagged("cmd", func() { defer wg.Done(); w.List() })
		}
		wg.Add(1)
		vsched.GoTagged("cmd", func() {
			defer wg.Done()
			switch cmd {
			case "deploy-new":
				w.Deploy(deployArgs("s3", []string{"na:80"}, []string{"c.example.com"}, nil))
			case "redeploy":
				w.Deploy(deployArgs("s1", []string{"na:80"}, []string{"a.example.com", "d.example.com"}, nil))
			case "remove":
				w.Remove("s2")
			case "stop":
				w.Stop("s1", vD, "m")
			case "pause":
				w.Pause("s2", vD, vMaxPause)
			}
		})
		wg.Wait()
		w.S.SetWindow(false)
		for i := 0; i < 2; i++ {
			l, _ := w.List()
			after = append(after, c20ListSummary(l))
		}
	}
	sc.Check = func(w *World) []Violation {
		s1 := "s1 host=a.example.com path=/ target=oa:80 state=running tls=false"
		s2 := "s2 host=b.example.com path=/api target=xa:80 state=running tls=false"
		want := map[string][]string{
			"deploy-new": {s1, s2, "s3 host=c.example.com path=/ target=na:80 state=running tls=false"},
			"redeploy":   {"s1 host=a.example.com,d.example.com path=/ target=na:80 state=running tls=false", s2},
			"remove":     {s1},
			"stop":       {strings.Replace(s1, "running", "stopped", 1), s2},
			"pause":      {s1, strings.Replace(s2, "running", "paused", 1)},
		}[cmd]
		var vs []Violation
		for i, got := range after {
			if got != strings.Join(want, "; ") {
				vs = append(vs, Violation{"C20", "list-not-the-deployed-services after-overlapping-list " + cmd, fmt.Sprintf("list %d after `%s` (which overlapped %d list command(s)) returned {%s}, deployed: {%s}", i+1, cmd, lists, got, strings.Join(want, "; "))})
				break
			}
		}
		return vs
	}
	return sc
}

// c20StateAfterOverlap: `stop` / `pause` / `resume` of a service returns while a deploy of the same service is waiting
// for its target; when both have returned `list` shows the state the gate command established and the new target.
func c20StateAfterOverlap(gate string) *Scenario {
	sc := &Scenario{Name: "C20-S " + gate + " while a deploy of the same service waits for its target", Horizon: 40 * time.Second}
	var after string
	sc.Run = func(w *World) {
		after = ""
		w.AddTarget("oa:80")
		w.AddTarget("na:80", p500(), pOK())
		w.Deploy(deployArgs("s1", []string{"oa:80"}, []string{"a.example.com"}, nil))
		if gate == "resume" {
			w.Stop("s1", vD, "m")
		}
		time.Sleep(100 * time.Millisecond)
		var wg vsync.WaitGroup
		wg.Add(2)
		w.S.SetWindow(true)
		vsched.GoTagged("cmd", func() {
			defer wg.Done()
			w.Deploy(deployArgs("s1", []string{"na:80"}, []string{"a.example.com"}, nil))
		})
		time.Sleep(200 * time.Millisecond)
		vsched.GoTagged("cmd", func() {
			defer wg.Done()
			switch gate {
			case "stop":
				w.Stop("s1", vD, "m")
			case "pause":
				w.Pause("s1", vD, vMaxPause)
			case "resume":
				w.Resume("s1")
			}
		})
		wg.Wait()
		w.S.SetWindow(false)
		l, _ := w.List()
		after = c20ListSummary(l)
	}
	sc.Check = func(w *World) []Violation {
		state := map[string]string{"stop": "stopped", "pause": "paused", "resume": "running"}[gate]
		want := "s1 host=a.example.com path=/ target=na:80 state=" + state + " tls=false"
		if after != want {
			return []Violation{{"C20", "list-state-after-overlapping-deploy " + gate, fmt.Sprintf("`%s s1` returned while a deploy of s1 was waiting for its target; after both returned list shows {%s}, expected {%s}", gate, after, want)}}
		}
		return nil
	}
	return sc
}

func checkC20(t *testing.T, job *Job, res *Result) {
	tier := job.Tier
	if job.Replay != nil {
		tier = job.Replay.Tier
	}
	var scs []*Scenario
	for _, cmd := range []string{"deploy-new", "redeploy", "remove", "stop", "pause"} {
		for _, n := range []int{1, 2} {
			scs = append(scs, c20ListDuring(cmd, n, false), c20ListDuring(cmd, n, true))
		}
	}
	for _, g := range []string{"stop", "pause", "resume"} {
		scs = append(scs, c20StateAfterOverlap(g))
	}
	b := Bounds{D: 2, S: 0}
	if tier == "thorough" {
		b = Bounds{D: 3, S: 0}
	}
	res.Rule = "engine S part: stop / pause / resume returning while a deploy of the same service waits for its target (list shows the new state and the new target); one or two `list` commands (the first since the last change, or not) overlapping {deploy of a new service, redeploy with another target and host, remove, stop, pause}, every schedule within the bounds from both default schedules; afterwards two `list`s return exactly the deployed services with their hosts, paths, targets, state and TLS flag"
	runS(t, job, res, "C20", withReversed(scs), b, 0)
}
