//go:build verif

package server

import (
	"fmt"
	"sort"
	"strings"
	"testing"
	"testing/synctest"
	"time"

	"github.com/basecamp/kamal-proxy/internal/verif/vsched"
)

// Violation is one oracle failure of one execution.
type Violation struct {
	Property  string `json:"property"`
	Signature string `json:"signature"`
	Detail    string `json:"detail"`
}

// Scenario is one configuration of an engine-S check.
type Scenario struct {
	Name    string
	Horizon time.Duration
	Run     func(w *World)             // body of the main thread
	Check   func(w *World) []Violation // oracle, evaluated after the execution
	Outcome func(w *World) string      // canonical observation (distinct-outcome count, determinism check)
	Log     bool
	Bounds  *Bounds // overrides the bounds of the check for this configuration
	Reverse bool    // second default schedule: ties among enabled threads broken in descending name order
}

// withReversed doubles a configuration list: every configuration is also explored from the reversed default
// schedule (the thread spawned last runs first), which brings interleavings that need k+1 deviations from one
// default within k deviations of the other.
func withReversed(scs []*Scenario) []*Scenario {
	out := make([]*Scenario, 0, 2*len(scs))
	for _, sc := range scs {
		out = append(out, sc)
		r := *sc
		r.Name = sc.Name + " order=reversed"
		r.Reverse = true
		out = append(out, &r)
	}
	return out
}

type ExecResult struct {
	Devs       []vsched.Dev
	Trace      []vsched.Step
	Violations []Violation
	Outcome    string
	States     map[uint64]struct{}
	MaxThreads int
	Infra      string // harness problem (bad replay, leaked threads): exit 2 material
	World      *World
}

type Bounds struct {
	D     int // thread deviations from the default schedule (preemptions and switches)
	S     int // stalls (clock chosen while a thread is enabled)
	Total int // if > 0: D+S deviations in total
	// SAlone: stalls only in executions without thread deviations (the union of "<=D thread deviations, no stall" and "<=S stalls alone")
	SAlone bool
}

func (b Bounds) ok(d, s int) bool {
	if d > b.D || s > b.S {
		return false
	}
	if b.SAlone && s > 0 && d > 0 {
		return false
	}
	return b.Total <= 0 || d+s <= b.Total
}

// full: no further deviation of either kind is within the bounds
func (b Bounds) full(d, s int) bool {
	return !b.ok(d+1, s) && !b.ok(d, s+1)
}

func (b Bounds) String() string {
	s := fmt.Sprintf("thread deviations<=%d, stalls<=%d", b.D, b.S)
	if b.Total > 0 {
		s += fmt.Sprintf(", total<=%d", b.Total)
	}
	if b.SAlone {
		s += ", stalls only without thread deviations"
	}
	return s
}

func runScenario(t *testing.T, prop string, sc *Scenario, devs []vsched.Dev, keepWorld bool) *ExecResult {
	res := &ExecResult{Devs: devs}
	var w *World
	horizon := sc.Horizon
	if horizon == 0 {
		horizon = 60 * time.Second
	}
	s := vsched.New(devs, horizon)
	s.Reverse = sc.Reverse
	func() {
		defer func() {
			// synctest panics when the bubble cannot end (goroutines blocked for ever):
			// a harness/teardown problem of this execution, not a crash of the worker
			if r := recover(); r != nil && !s.HorizonHit {
				res.Infra = fmt.Sprintf("bubble did not terminate: %v", r)
			}
			// (after a hang / deadlock / livelock verdict threads blocked for ever in the code under test are the
			// expected aftermath, not a harness problem)
		}()
		synctest.Test(t, func(t *testing.T) {
			s.Run(func() {
				w = NewWorld(t, sc.Log)
				defer w.Finish()
				sc.Run(w)
			})
		})
	}()
	res.Trace = s.Trace
	res.States = s.StateHashes
	res.MaxThreads = s.MaxThreads
	if s.BadReplay != "" {
		res.Infra = "bad replay: " + s.BadReplay
	}
	if len(s.Leaked) > 0 && !s.HorizonHit {
		res.Infra = "threads leaked through teardown: " + strings.Join(s.Leaked, ",")
	}
	if w == nil {
		res.Infra = "world not created"
		return res
	}
	// generic monitors (C18 clauses, reported under the running property)
	for _, th := range s.Panics() {
		site := panicSite(th.PanicStk)
		res.Violations = append(res.Violations, Violation{prop, "panic:" + site, fmt.Sprintf("thread %s (%s) panicked: %v\n%s", th.Name, th.Tag, th.PanicVal, trimStack(th.PanicStk))})
	}
	for _, c := range w.Cmds {
		if c.Panic != nil {
			res.Violations = append(res.Violations, Violation{prop, "panic:cmd-" + c.Name, fmt.Sprintf("command %s %s panicked: %v", c.Name, c.Args, c.Panic)})
		}
	}
	for _, r := range w.Reqs {
		if r.Panic != nil {
			res.Violations = append(res.Violations, Violation{prop, "panic:request", fmt.Sprintf("request %s panicked: %v", r.ID, r.Panic)})
		}
	}
	if s.HorizonHit {
		var stuck []string
		for _, c := range w.Cmds {
			if !c.Done {
				stuck = append(stuck, c.Name)
			}
		}
		if len(stuck) > 0 {
			kind := "hang"
			if s.Deadlock {
				kind = "deadlock"
			}
			if s.Livelock {
				kind = "livelock"
			}
			res.Violations = append(res.Violations, Violation{prop, kind + ":" + strings.Join(stuck, "+"), fmt.Sprintf("commands %v not finished at the horizon %v; blocked: %v; %s", stuck, horizon, s.Blocked(), s.LivelockAt)})
		} else if s.Livelock {
			res.Violations = append(res.Violations, Violation{prop, "livelock:thread-spinning", fmt.Sprintf("more than %d scheduling steps without virtual time passing; last seen %s", vsched.MaxStepsPerInstant, s.LivelockAt)})
		} else if !w.finished {
			res.Infra = fmt.Sprintf("scenario %s did not finish within its horizon %v", sc.Name, horizon)
		}
	}
	if res.Infra == "" && sc.Check != nil {
		res.Violations = append(res.Violations, sc.Check(w)...)
	}
	if sc.Outcome != nil {
		res.Outcome = sc.Outcome(w)
	} else {
		res.Outcome = defaultOutcome(w)
	}
	if keepWorld {
		res.World = w
	}
	w.Cleanup()
	return res
}

func panicSite(stk string) string {
	// first frame of package server that is not the harness
	for _, line := range strings.Split(stk, "\n") {
		if strings.Contains(line, "internal/server.") && !strings.Contains(line, "zz_verif") && !strings.Contains(line, "World") {
			f := line
			if i := strings.LastIndex(f, "internal/server."); i >= 0 {
				f = f[i+len("internal/server."):]
			}
			if i := strings.Index(f, "("); i > 0 && !strings.HasPrefix(f, "(") {
				f = f[:i]
			} else if strings.HasPrefix(f, "(") {
				// (*T).M(...)
				if j := strings.Index(f[1:], "("); j > 0 {
					f = f[:j+1]
				}
			}
			return f
		}
	}
	return "?"
}

func trimStack(s string) string {
	lines := strings.Split(s, "\n")
	if len(lines) > 40 {
		lines = lines[:40]
	}
	return strings.Join(lines, "\n")
}

func defaultOutcome(w *World) string {
	var parts []string
	for _, c := range w.Cmds {
		e := "ok"
		if c.Err != nil {
			// (error texts may name files of this execution's scratch directory)
			e = strings.ReplaceAll(c.Err.Error(), w.Dir, "<dir>")
		}
		if !c.Done {
			e = "unfinished"
		}
		parts = append(parts, fmt.Sprintf("%s[%s]=%s@%v", c.Name, c.Thread, e, c.End))
	}
	var rs []string
	for _, r := range w.Reqs {
		rs = append(rs, r.Summary()+fmt.Sprintf("@%v", r.End))
	}
	sort.Strings(rs)
	return strings.Join(parts, ";") + "|" + strings.Join(rs, ";")
}

// ---------------------------------------------------------------------------

type Found struct {
	Violation
	Scenario string       `json:"scenario"`
	Config   int          `json:"config"`
	Devs     []vsched.Dev `json:"devs"`
	History  []string     `json:"history,omitempty"`
	Input    string       `json:"input,omitempty"`
	Trace    []string     `json:"trace,omitempty"`
	Count    int          `json:"count"`
}

type SStats struct {
	Configs     int                 `json:"configs"`
	ConfigsRun  int                 `json:"configs_run"`
	Executions  int                 `json:"executions"`
	Transitions int64               `json:"transitions"`
	Outcomes    map[string]int      `json:"-"`
	NOutcomes   int                 `json:"distinct_outcomes"`
	States      map[uint64]struct{} `json:"-"`
	ByBound     map[string]int      `json:"by_bound"`
	MaxThreads  int                 `json:"max_threads"`
	MaxPoints   int                 `json:"max_points"`
	Capped      bool                `json:"capped"`
	CapNote     string              `json:"cap_note,omitempty"`
	DetermOK    int                 `json:"determinism_checks_ok"`
	Found       []*Found            `json:"found"`
	Infra       []string            `json:"infra,omitempty"`
	Samples     []any               `json:"samples"`
}

type Explorer struct {
	t        *testing.T
	prop     string
	bounds   Bounds
	stats    *SStats
	deadline time.Time
	shard    int
	nshards  int
	itemNo   int
	found    map[string]*Found
	maxExec  int // per configuration cap (0 = none)
}

func newExplorer(t *testing.T, prop string, b Bounds, job *Job) *Explorer {
	e := &Explorer{t: t, prop: prop, bounds: b, shard: job.Shard, nshards: job.NShards, found: map[string]*Found{}}
	if e.nshards <= 0 {
		e.nshards = 1
	}
	e.stats = &SStats{Outcomes: map[string]int{}, States: map[uint64]struct{}{}, ByBound: map[string]int{}}
	budget := time.Duration(job.BudgetS) * time.Second
	if budget <= 0 {
		budget = 100 * time.Second
	}
	e.deadline = time.Now().Add(budget)
	return e
}

func traceStrings(tr []vsched.Step) []string {
	res := make([]string, 0, len(tr))
	for i, st := range tr {
		flag := " "
		if st.Window {
			flag = "*"
		}
		res = append(res, fmt.Sprintf("%3d%s %9v  %-40s menu=%v", i, flag, st.Now, st.Desc, st.Menu))
	}
	return res
}

func (e *Explorer) record(cfg int, sc *Scenario, r *ExecResult, d, s int) {
	st := e.stats
	st.Executions++
	st.Transitions += int64(len(r.Trace))
	st.ByBound[fmt.Sprintf("d%d,s%d", d, s)]++
	st.Outcomes[r.Outcome]++
	for h := range r.States {
		st.States[h] = struct{}{}
	}
	if r.MaxThreads > st.MaxThreads {
		st.MaxThreads = r.MaxThreads
	}
	if len(r.Trace) > st.MaxPoints {
		st.MaxPoints = len(r.Trace)
	}
	if r.Infra != "" {
		st.Infra = append(st.Infra, fmt.Sprintf("%s devs=%v: %s", sc.Name, r.Devs, r.Infra))
	}
	for _, v := range r.Violations {
		key := v.Property + "|" + v.Signature
		f := e.found[key]
		if f == nil || len(r.Devs) < len(f.Devs) {
			cnt := 0
			if f != nil {
				cnt = f.Count
			}
			nf := &Found{Violation: v, Scenario: sc.Name, Config: cfg, Devs: append([]vsched.Dev(nil), r.Devs...), Trace: traceStrings(r.Trace), Count: cnt}
			e.found[key] = nf
			f = nf
		}
		f.Count++
	}
}

// exploreConfig explores one scenario: the default schedule and every
// schedule with at most bounds.D thread deviations and bounds.S stalls inside
// the branching window. Work is split over shards on the first deviation.
func (e *Explorer) boundsFor(sc *Scenario) Bounds {
	if sc.Bounds != nil {
		return *sc.Bounds
	}
	return e.bounds
}

func (e *Explorer) exploreConfig(cfg int, sc *Scenario) {
	e.stats.Configs++
	base := runScenario(e.t, e.prop, sc, nil, false)
	mine := e.itemNo%e.nshards == e.shard
	e.itemNo++
	ran := false
	if mine {
		e.record(cfg, sc, base, 0, 0)
		ran = true
		// determinism self-check on the default schedule
		again := runScenario(e.t, e.prop, sc, nil, false)
		if again.Outcome != base.Outcome || len(again.Trace) != len(base.Trace) {
			e.stats.Infra = append(e.stats.Infra, fmt.Sprintf("%s: default schedule not deterministic:\n A: %s\n B: %s", sc.Name, base.Outcome, again.Outcome))
		} else {
			e.stats.DetermOK++
		}
		if len(e.stats.Samples) < 2 {
			e.stats.Samples = append(e.stats.Samples, map[string]any{"scenario": sc.Name, "deviations": []vsched.Dev{}, "outcome": base.Outcome, "trace": traceStrings(base.Trace)})
		}
	}
	if base.Infra != "" {
		if !mine {
			e.stats.Infra = append(e.stats.Infra, sc.Name+": "+base.Infra)
		}
		return
	}
	execsBefore := e.stats.Executions
	for i := 0; i < len(base.Trace); i++ {
		st := base.Trace[i]
		if !st.Window || len(st.Menu) <= 1 {
			continue
		}
		for alt := 1; alt < len(st.Menu); alt++ {
			d, s := 0, 0
			if alt == len(st.Menu)-1 {
				s = 1
			} else {
				d = 1
			}
			if !e.boundsFor(sc).ok(d, s) {
				continue
			}
			mine := e.itemNo%e.nshards == e.shard
			e.itemNo++
			if !mine {
				continue
			}
			ran = true
			e.explore(cfg, sc, []vsched.Dev{{Step: i, Choice: alt}}, d, s, base.Trace[:i], execsBefore)
		}
	}
	if ran {
		e.stats.ConfigsRun++
	}
}

func (e *Explorer) explore(cfg int, sc *Scenario, devs []vsched.Dev, d, s int, prefix []vsched.Step, execsBefore int) {
	if time.Now().After(e.deadline) {
		if !e.stats.Capped {
			e.stats.Capped = true
			e.stats.CapNote = "wall-clock budget reached in " + sc.Name
		}
		return
	}
	if e.maxExec > 0 && e.stats.Executions-execsBefore >= e.maxExec {
		e.stats.Capped = true
		e.stats.CapNote = fmt.Sprintf("per-configuration execution cap %d reached in %s", e.maxExec, sc.Name)
		return
	}
	r := runScenario(e.t, e.prop, sc, devs, false)
	// divergence while replaying a prefix is a hard error
	last := devs[len(devs)-1]
	if r.Infra == "" {
		if len(r.Trace) <= last.Step {
			r.Infra = fmt.Sprintf("replay diverged: trace has %d steps, deviation at %d", len(r.Trace), last.Step)
		} else {
			for i := 0; i < last.Step && i < len(prefix); i++ {
				if r.Trace[i].Desc != prefix[i].Desc {
					r.Infra = fmt.Sprintf("replay diverged at step %d: %q vs %q", i, r.Trace[i].Desc, prefix[i].Desc)
					break
				}
			}
		}
	}
	e.record(cfg, sc, r, d, s)
	if len(e.stats.Samples) < 4 && len(r.Violations) == 0 && len(devs) >= 1 && e.stats.Executions%7 == 3 {
		e.stats.Samples = append(e.stats.Samples, map[string]any{"scenario": sc.Name, "deviations": devs, "outcome": r.Outcome, "trace": traceStrings(r.Trace)})
	}
	if r.Infra != "" {
		return
	}
	if e.boundsFor(sc).full(d, s) {
		return
	}
	for i := last.Step + 1; i < len(r.Trace); i++ {
		st := r.Trace[i]
		if !st.Window || len(st.Menu) <= 1 {
			continue
		}
		for alt := 1; alt < len(st.Menu); alt++ {
			nd, ns := d, s
			if alt == len(st.Menu)-1 {
				ns++
			} else {
				nd++
			}
			if !e.boundsFor(sc).ok(nd, ns) {
				continue
			}
			nd2 := append(append([]vsched.Dev(nil), devs...), vsched.Dev{Step: i, Choice: alt})
			e.explore(cfg, sc, nd2, nd, ns, r.Trace[:i], execsBefore)
		}
	}
}

// finish validates every found violation by replaying it (determinism
// contract) and fills the stats.
func (e *Explorer) finish(scs []*Scenario) *SStats {
	st := e.stats
	keys := make([]string, 0, len(e.found))
	for k := range e.found {
		keys = append(keys, k)
	}
	sort.Strings(keys)
	for _, k := range keys {
		f := e.found[k]
		sc := scs[f.Config]
		// minimise the deviation list greedily
		devs := f.Devs
		for i := 0; i < len(devs); {
			trial := append(append([]vsched.Dev(nil), devs[:i]...), devs[i+1:]...)
			r := runScenario(e.t, e.prop, sc, trial, false)
			if r.Infra == "" && hasSig(r, f.Signature) {
				devs = trial
				f.Trace = traceStrings(r.Trace)
				for _, v := range r.Violations {
					if v.Signature == f.Signature {
						f.Detail = v.Detail
					}
				}
			} else {
				i++
			}
		}
		f.Devs = devs
		ok := 0
		var first string
		for i := 0; i < 5; i++ {
			r := runScenario(e.t, e.prop, sc, f.Devs, false)
			if r.Infra == "" && hasSig(r, f.Signature) && (first == "" || first == r.Outcome) {
				ok++
				first = r.Outcome
			}
		}
		if ok == 0 {
			st.Infra = append(st.Infra, fmt.Sprintf("violation %s in %s devs=%v did not reproduce in 5 replays", f.Signature, f.Scenario, f.Devs))
			continue
		}
		if ok != 5 {
			// the code under test itself behaves nondeterministically under one schedule
			f.Detail += fmt.Sprintf(" [reproduced in %d of 5 replays of the same schedule]", ok)
		}
		st.Found = append(st.Found, f)
	}
	st.NOutcomes = len(st.Outcomes)
	return st
}

func hasSig(r *ExecResult, sig string) bool {
	for _, v := range r.Violations {
		if v.Signature == sig {
			return true
		}
	}
	return false
}
