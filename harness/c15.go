//go:build verif

package server

import (
	"bytes"
	"fmt"
	"net/http"
	"os"
	"strconv"
	"strings"
	"testing"
	"time"

	"github.com/basecamp/kamal-proxy/internal/verif/memnet"
	"github.com/basecamp/kamal-proxy/internal/verif/vsched"
)

func init() { checks["C15"] = checkC15 }

var c15Bodies = map[string][]byte{}

func c15Raw(name string) []byte {
	if b, ok := c15Bodies[name]; ok {
		return b
	}
	var b []byte
	switch name {
	case "cl":
		b = []byte("HTTP/1.1 200 OK\r\nContent-Type: text/plain\r\nContent-Length: 26\r\nX-Target: f\r\n\r\nabcdefghijklmnopqrstuvwxyz")
	case "chunked":
		b = []byte("HTTP/1.1 200 OK\r\nContent-Type: text/plain\r\nTransfer-Encoding: chunked\r\nX-Target: f\r\n\r\n5\r\nhello\r\n6\r\n world\r\n3\r\n!!!\r\n0\r\n\r\n")
	case "204":
		b = []byte("HTTP/1.1 204 No Content\r\nX-Target: f\r\n\r\n")
	case "hints":
		b = []byte("HTTP/1.1 103 Early Hints\r\nLink: </s.css>; rel=preload\r\n\r\nHTTP/1.1 200 OK\r\nContent-Type: text/plain\r\nContent-Length: 5\r\nX-Target: f\r\n\r\nhello")
	case "big":
		b = append([]byte("HTTP/1.1 200 OK\r\nContent-Type: application/octet-stream\r\nContent-Length: 102400\r\nX-Target: f\r\n\r\n"), bytes.Repeat([]byte("Z"), 102400)...)
	}
	c15Bodies[name] = b
	return b
}

// hdrEnd is the offset at which the header block of the FINAL response ends (informational 1xx blocks before it are
// part of the header phase: a target failing after `103 Early Hints` has not answered yet).
func hdrEnd(raw []byte) int {
	off := 0
	for {
		i := bytes.Index(raw[off:], []byte("\r\n\r\n"))
		if i < 0 {
			return len(raw)
		}
		informational := bytes.HasPrefix(raw[off:], []byte("HTTP/1.1 1"))
		off += i + 4
		if !informational {
			return off
		}
	}
}

type c15svc struct {
	reqBuf, respBuf bool
	pages           string // builtin | custom | custom-other
}

var c15Services []c15svc

func init() {
	for _, rb := range []bool{false, true} {
		for _, pb := range []bool{false, true} {
			for _, pg := range []string{"builtin", "custom", "custom-other"} {
				c15Services = append(c15Services, c15svc{rb, pb, pg})
			}
		}
	}
}

func c15Setup(w *World) error {
	fx := fixtures()
	for i, s := range c15Services {
		t := fmt.Sprintf("ft%d:80", i)
		tg := w.AddTarget(t)
		tg.Responder = c15Responder
		a := deployArgs(fmt.Sprintf("fs%d", i), []string{t}, []string{fmt.Sprintf("f%d.example.com", i)}, nil)
		a.TargetOptions.BufferRequests, a.TargetOptions.BufferResponses = s.reqBuf, s.respBuf
		a.TargetOptions.MaxMemoryBufferSize = 64
		switch s.pages {
		case "custom":
			a.ServiceOptions.ErrorPagePath = fx + "/pages"
		case "custom-other":
			a.ServiceOptions.ErrorPagePath = fx + "/pages-no503"
		}
		if r := w.Deploy(a); r.Err != nil {
			return r.Err
		}
	}
	w.AddTarget("refuser:80")
	return nil
}

// X-Fault: r=<name>;k=<offset>;f=<close|stall|garbage|none>;d=<delay ms>
func c15Responder(req *http.Request, body []byte) *memnet.Response {
	d := req.Header.Get("X-Fault")
	if d == "" {
		return nil
	}
	r := &memnet.Response{}
	for _, f := range strings.Split(d, ";") {
		k, v, _ := strings.Cut(f, "=")
		switch k {
		case "r":
			r.Raw = c15Raw(v)
		case "k":
			r.FaultAt, _ = strconv.Atoi(v)
		case "f":
			if v != "none" {
				r.Fault = v
			}
		case "d":
			ms, _ := strconv.Atoi(v)
			r.Delay = time.Duration(ms) * time.Millisecond
		}
	}
	if r.Fault == "close" {
		r.CloseAfter = true
	}
	return r
}

type c15in struct {
	svc   int
	resp  string
	k     int
	fault string // close | stall | garbage | none | refused
	delay time.Duration
	drain string // "" | pause | stop: that command starts draining the target 100ms after the request was sent (fault after 500ms)
}

func (c c15in) name() string {
	s := c15Services[c.svc]
	r := fmt.Sprintf("svc=%d(reqbuf=%v respbuf=%v pages=%s) resp=%s fault=%s@%d delay=%v", c.svc, s.reqBuf, s.respBuf, s.pages, c.resp, c.fault, c.k, c.delay)
	if c.drain != "" {
		r += " during-" + c.drain
	}
	return r
}

// inflightResidue peeks at the private in-flight tables of every target.
func inflightResidue(w *World) int {
	n := 0
	w.Router.serviceLock.RLock()
	defer w.Router.serviceLock.RUnlock()
	for _, s := range w.Router.services.services {
		for _, lb := range []*LoadBalancer{s.active, s.rollout} {
			if lb == nil {
				continue
			}
			for _, t := range lb.all {
				t.inflightLock.Lock()
				n += len(t.inflight)
				t.inflightLock.Unlock()
			}
		}
	}
	return n
}

func c15Run(c c15in) func(w *World) []Violation {
	return func(w *World) []Violation {
		var vs []Violation
		add := func(sig, d string) { vs = append(vs, Violation{"C15", sig, c.name() + ": " + d}) }
		s := c15Services[c.svc]
		host := fmt.Sprintf("f%d.example.com", c.svc)
		raw := c15Raw(c.resp)
		he := hdrEnd(raw)
		spec := ReqSpec{Host: host, Path: "/x", Method: "POST", Body: []byte("request-body"),
			Header: [][2]string{{"X-Fault", fmt.Sprintf("r=%s;k=%d;f=%s;d=%d", c.resp, c.k, c.fault, c.delay.Milliseconds())}}}
		tgt := w.Net.Target(fmt.Sprintf("ft%d:80", c.svc))
		if c.fault == "refused" {
			tgt.RefuseRequests = true
			// idle keep-alive connections would bypass the refusal
			w.Net.CloseConnsOf(tgt.Name)
			time.Sleep(time.Millisecond)
		}
		t0 := w.Now()
		var o *ReqObs
		if c.drain == "" {
			o = w.Do(spec)
		} else {
			// the fault happens while an operator command is draining the target
			done := make(chan struct{})
			vsched.GoTagged("client", func() {
				o = w.Do(spec)
				close(done)
			})
			time.Sleep(100 * time.Millisecond)
			svc := fmt.Sprintf("fs%d", c.svc)
			if c.drain == "pause" {
				w.Pause(svc, vD, vMaxPause)
			} else {
				w.Stop(svc, vD, "draining")
			}
			<-done
			w.Resume(svc)
			if o == nil {
				return append(vs, Violation{"C15", "request-unfinished", c.name()})
			}
		}
		tgt.RefuseRequests = false
		el := o.End - t0
		page := func(status int) {
			body := string(o.Body)
			wantCustom := s.pages == "custom"
			if wantCustom != strings.Contains(body, fmt.Sprintf("CUSTOM-%d", status)) {
				add(fmt.Sprintf("error-page-selection status=%d pages=%s", status, s.pages), firstN(o.Body, 80))
			}
			if !wantCustom && !strings.Contains(body, fmt.Sprintf("<title>%d", status)) {
				add(fmt.Sprintf("built-in-page-missing status=%d", status), firstN(o.Body, 80))
			}
			if o.Aborted || !o.Done {
				add("error-response-not-well-formed", o.Summary())
			}
		}
		switch {
		case c.fault == "refused" || ((c.fault == "close" || c.fault == "garbage") && c.k < he):
			if o.Status != 502 {
				add(fmt.Sprintf("header-phase-%s-not-502 got=%d", c.fault, o.Status), o.Summary())
			} else {
				page(502)
				if el != c.delay {
					add("502-not-prompt", fmt.Sprintf("answered after %v, fault happened at %v", el, c.delay))
				}
			}
		case c.fault == "stall" && c.k < he, c.fault == "none" && c.delay > vTargetTO:
			if o.Status != 504 {
				add(fmt.Sprintf("header-phase-silence-not-504 got=%d", o.Status), o.Summary())
			} else {
				page(504)
				if el != vTargetTO {
					add("504-not-at-target-timeout", fmt.Sprintf("answered after %v, target timeout %v", el, vTargetTO))
				}
			}
		case c.fault == "none" || c.k >= len(raw):
			// complete response (possibly late but within the timeout)
			if o.Status != 200 && o.Status != 204 {
				add(fmt.Sprintf("complete-response-not-delivered got=%d", o.Status), o.Summary())
			}
		default:
			// fault after the header block: the response must be visibly cut short
			declared := -1
			if cl := o.Header.Get("Content-Length"); cl != "" {
				declared, _ = strconv.Atoi(cl)
			}
			short := declared >= 0 && len(o.Body) < declared
			complete := o.Status == 200 && !o.Aborted && !short
			if s.respBuf && o.Status == 200 && !o.Aborted {
				add("buffered-truncated-response-delivered-as-200", fmt.Sprintf("%s body=%d bytes", o.Summary(), len(o.Body)))
			} else if complete {
				add("truncated-response-presented-as-complete", fmt.Sprintf("%s declared=%d body=%d bytes", o.Summary(), declared, len(o.Body)))
			}
		}
		// nothing left behind
		if f := spillFiles(w); len(f) > 0 {
			add("spill-file-left-behind-after-target-fault", fmt.Sprint(f))
			for _, x := range f {
				os.Remove(w.Dir + "/tmp/" + x)
			}
		}
		if n := inflightResidue(w); n != 0 {
			add("inflight-entry-left-behind", fmt.Sprintf("%d entries", n))
		}
		g := w.Do(ReqSpec{Host: host, Path: "/ok"})
		if g.Status != 200 || g.ServedBy() == "" {
			add("proxy-stopped-serving-after-fault", g.Summary())
		}
		return vs
	}
}

// c15TimeoutAfterRedeploy: a service is redeployed onto the same target address with another target timeout; a target
// that stays silent must be given up after the timeout of the deployment in force.
func c15TimeoutAfterRedeploy(w *World) []Violation {
	var vs []Violation
	add := func(sig, d string) { vs = append(vs, Violation{"C15", sig, "redeploy onto the same target with another target timeout: " + d}) }
	tg := w.AddTarget("ftsame:80")
	tg.Responder = c15Responder
	for i, to := range []time.Duration{vTargetTO, 1700 * time.Millisecond, 2900 * time.Millisecond, 900 * time.Millisecond} {
		a := deployArgs("fsame", []string{"ftsame:80"}, []string{"fsame.example.com"}, nil)
		a.TargetOptions.ResponseTimeout = to
		if r := w.Deploy(a); r.Err != nil {
			add("redeploy-failed", r.Err.Error())
			return vs
		}
		t0 := w.Now()
		o := w.Do(ReqSpec{Host: "fsame.example.com", Path: "/x", Header: [][2]string{{"X-Fault", "r=cl;k=0;f=stall;d=0"}}})
		if o.Status != 504 {
			add(fmt.Sprintf("header-phase-silence-not-504 got=%d", o.Status), fmt.Sprintf("deployment %d (timeout %v): %s", i, to, o.Summary()))
		} else if el := o.End - t0; el != to {
			add("504-not-at-target-timeout after-redeploy-of-same-target", fmt.Sprintf("deployment %d: answered after %v, the target timeout in force is %v", i, el, to))
		}
		// a response arriving just inside the timeout is delivered
		t0 = w.Now()
		o = w.Do(ReqSpec{Host: "fsame.example.com", Path: "/x", Header: [][2]string{{"X-Fault", fmt.Sprintf("r=cl;k=1073741824;f=none;d=%d", (to - 100*time.Millisecond).Milliseconds())}}})
		if o.Status != 200 {
			add(fmt.Sprintf("complete-response-not-delivered got=%d", o.Status), fmt.Sprintf("deployment %d (timeout %v): first byte after %v", i, to, to-100*time.Millisecond))
		}
	}
	w.Remove("fsame")
	return vs
}

// c15MuteTargetLargeUpload: as c15MuteTarget, with a request body larger than what the target's connection takes
// without being read (memnet.PipeWindow): the proxy's write of the body cannot complete. The client still has to get
// its 504 at the target timeout; a client that gives up 30 s later without having been answered is reported.
func c15MuteTargetLargeUpload(w *World) []Violation {
	var vs []Violation
	tg := w.AddTarget("fmutb:80")
	tg.Responder = c15Responder
	const to = 1300 * time.Millisecond
	for _, bufReq := range []bool{false, true} {
		a := deployArgs("fmutb", []string{"fmutb:80"}, []string{"fmutb.example.com"}, nil)
		a.TargetOptions.ResponseTimeout = to
		a.TargetOptions.BufferRequests = bufReq
		if r := w.Deploy(a); r.Err != nil {
			return append(vs, Violation{"C15", "deploy-failed", r.Err.Error()})
		}
		t0 := w.Now()
		o := w.Do(ReqSpec{Host: "fmutb.example.com", Path: "/m", Method: "POST", Body: bytes.Repeat([]byte("x"), memnet.PipeWindow+6000),
			Header: [][2]string{{"X-Verif-Mute", "1"}}, CancelAfter: to + 30*time.Second})
		if o.Status != 504 || o.End-t0 != to {
			vs = append(vs, Violation{"C15", fmt.Sprintf("no-504-at-target-timeout mute-target upload-larger-than-connection-window buffer-requests=%v", bufReq),
				fmt.Sprintf("target timeout %v, the target accepts the request head and reads nothing, body of %d bytes; the client gave up after %v: %s", to, memnet.PipeWindow+6000, o.End-t0, o.Summary())})
		}
	}
	w.Remove("fmutb")
	return vs
}

// c15MuteTarget: the target accepts the request head and then stays silent - it does not read the body and answers
// nothing, not even `100 Continue`. Whatever the request looks like (no body, a body, a body announced with
// `Expect: 100-continue`, a chunked one), the client gets 504 when the target timeout has passed, not later.
func c15MuteTarget(w *World) []Violation {
	var vs []Violation
	tg := w.AddTarget("fmute:80")
	tg.Responder = c15Responder
	for _, bufReq := range []bool{false, true} {
		for _, to := range []time.Duration{vTargetTO, 1300 * time.Millisecond} {
			a := deployArgs("fmute", []string{"fmute:80"}, []string{"fmute.example.com"}, nil)
			a.TargetOptions.ResponseTimeout = to
			a.TargetOptions.BufferRequests = bufReq
			if r := w.Deploy(a); r.Err != nil {
				return append(vs, Violation{"C15", "deploy-failed", r.Err.Error()})
			}
			for _, shape := range []string{"get", "post", "post-expect", "post-chunked-expect"} {
				spec := ReqSpec{Host: "fmute.example.com", Path: "/m", Header: [][2]string{{"X-Verif-Mute", "1"}}}
				switch shape {
				case "post":
					spec.Method, spec.Body = "POST", []byte("abc")
				case "post-expect":
					spec.Method, spec.Body = "POST", []byte("abc")
					spec.Header = append(spec.Header, [2]string{"Expect", "100-continue"})
				case "post-chunked-expect":
					spec.Method, spec.Body, spec.Chunked = "POST", []byte("abcdef"), true
					spec.Header = append(spec.Header, [2]string{"Expect", "100-continue"})
				case "post-big-expect":
					spec.Method, spec.Body = "POST", bytes.Repeat([]byte("x"), 70000)
					spec.Header = append(spec.Header, [2]string{"Expect", "100-continue"})
				}
				t0 := w.Now()
				o := w.Do(spec)
				if o.Status != 504 {
					vs = append(vs, Violation{"C15", fmt.Sprintf("mute-target-not-504 got=%d", o.Status), fmt.Sprintf("%s buffer-requests=%v timeout %v: %s", shape, bufReq, to, o.Summary())})
				} else if el := o.End - t0; el != to {
					vs = append(vs, Violation{"C15", "504-not-at-target-timeout mute-target " + shape, fmt.Sprintf("buffer-requests=%v: answered after %v, the target timeout is %v", bufReq, el, to)})
				}
			}
		}
	}
	w.Remove("fmute")
	return vs
}

func c15Offsets(raw []byte, tier string) []int {
	he := hdrEnd(raw)
	seen := map[int]bool{}
	var res []int
	addk := func(k int) {
		if k >= 0 && k <= len(raw) && !seen[k] {
			seen[k] = true
			res = append(res, k)
		}
	}
	for k := 0; k <= he; k++ {
		addk(k)
	}
	if tier == "thorough" && len(raw) < 4096 {
		for k := he; k <= len(raw); k++ {
			addk(k)
		}
	}
	// chunk boundaries +-1
	for i := he; i < len(raw) && len(raw) < 4096; i++ {
		if raw[i] == '\n' {
			addk(i - 1)
			addk(i)
			addk(i + 1)
			addk(i + 2)
		}
	}
	stride := 64
	if len(raw) > 4096 {
		stride = 4099
		if tier == "thorough" {
			stride = 257
		}
	}
	for k := he; k < len(raw); k += stride {
		addk(k)
	}
	addk(len(raw) - 1)
	addk(len(raw))
	return res
}

func c15Cases(tier string) []ECase {
	var cases []ECase
	addc := func(in c15in) {
		cls := "after-headers"
		raw := c15Raw(in.resp)
		if in.fault == "refused" || in.k < hdrEnd(raw) {
			cls = "header-phase"
		}
		cases = append(cases, ECase{Name: in.name(), Class: fmt.Sprintf("%s %s %s svc=%d", in.resp, in.fault, cls, in.svc), Run: c15Run(in)})
	}
	for si := range c15Services {
		for _, rn := range []string{"cl", "chunked", "204", "big", "hints"} {
			raw := c15Raw(rn)
			he := hdrEnd(raw)
			for _, k := range c15Offsets(raw, tier) {
				for _, f := range []string{"close", "stall", "garbage"} {
					if k >= he && f != "close" {
						continue // see DESIGN C15: silence or foreign bytes inside a body are not detectable target failures
					}
					if k >= len(raw) {
						continue
					}
					if tier == "quick" && si%4 != k%4 && k > 20 && k < he-4 {
						continue // quick: each offset inside the header block on a quarter of the services
					}
					addc(c15in{svc: si, resp: rn, k: k, fault: f})
				}
			}
			addc(c15in{svc: si, resp: rn, k: len(raw), fault: "none"})
		}
		addc(c15in{svc: si, resp: "cl", fault: "refused"})
		addc(c15in{svc: si, resp: "cl", k: 1 << 30, fault: "none", delay: vTargetTO - 100*time.Millisecond})
		addc(c15in{svc: si, resp: "cl", k: 1 << 30, fault: "none", delay: vTargetTO + 100*time.Millisecond})
		addc(c15in{svc: si, resp: "cl", k: 30, fault: "close", delay: 700 * time.Millisecond})
		for _, d := range []string{"pause", "stop"} {
			for _, f := range []string{"close", "garbage"} {
				addc(c15in{svc: si, resp: "cl", k: 0, fault: f, delay: 500 * time.Millisecond, drain: d})
			}
			addc(c15in{svc: si, resp: "cl", k: 30, fault: "close", delay: 500 * time.Millisecond, drain: d})
		}
	}
	cases = append(cases, ECase{Name: "redeploy onto the same target with another target timeout", Class: "timeout-after-redeploy", Run: c15TimeoutAfterRedeploy})
	cases = append(cases, ECase{Name: "mute target, upload larger than the connection window", Class: "mute-target-large-upload", Run: c15MuteTargetLargeUpload})
	cases = append(cases, ECase{Name: "target that accepts the request and stays mute (body shapes incl. Expect: 100-continue)", Class: "mute-target", Run: c15MuteTarget})
	return cases
}

func checkC15(t *testing.T, job *Job, res *Result) {
	tier := job.Tier
	if job.Replay != nil {
		tier = job.Replay.Tier
	}
	res.Engine = "F"
	res.Rule = "fault points: for 5 scripted responses (Content-Length body, 3-chunk body, 204, 100kB body, 103 Early Hints before the final response) EVERY byte offset of the header block (and chunk boundaries +-1, strided body offsets; all offsets of the small responses in thorough) x {close, stall forever, garbage} (after the header block: close only), dial refused, first byte just before/after the target timeout, a fault after a delay, a fault while pause/stop is draining the target, silence after redeploys onto the same address with other target timeouts; x request/response buffering {none, req, resp, both} x error pages {built-in, custom 502/504, custom without them}; each fault followed by a good request; oracle: 502/504 with the right page at the exact virtual time, or a visibly incomplete response (handler abort / short body), never a complete-looking 200; in-flight table empty afterwards"
	res.Bounds = "see rule"
	runE(t, job, res, &ESpec{Prop: "C15", Setup: c15Setup, Cases: c15Cases(tier), Batch: 150})
}
