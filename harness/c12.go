//go:build verif

package server

import (
	"fmt"
	"os"
	"sort"
	"strings"
	"testing"
	"time"

	"github.com/basecamp/kamal-proxy/internal/verif/vsched"
	"github.com/basecamp/kamal-proxy/internal/verif/vsync"
)

func init() { checks["C12"] = checkC12 }

// restoredSummary restores an image into a scratch router (the real
// RestoreLastSavedState) and summarises what it would serve.
func restoredSummary(w *World, data []byte, exists bool, siblings ...map[string][]byte) (string, error) {
	p := fmt.Sprintf("%s/image-%d.state", w.Dir, len(w.FileLog)+int(w.Now()))
	if exists {
		if err := os.WriteFile(p, data, 0o644); err != nil {
			return "", err
		}
		defer os.Remove(p)
	}
	for _, sib := range siblings {
		for suffix, sd := range sib {
			if err := os.WriteFile(p+suffix, sd, 0o644); err != nil {
				return "", err
			}
			defer os.Remove(p + suffix)
		}
	}
	r := NewRouter(p)
	err := r.RestoreLastSavedState()
	if err != nil {
		return "", err
	}
	sum := routerSummary(r)
	defer func() {
		for _, s := range r.services.services {
			s.Dispose()
		}
	}()
	// the proxy that started from this image keeps its state file current: after one more command (stop of its
	// first service) the file restores to the configuration then in force - whatever the killed process left next to it
	leftovers := 0
	for _, sib := range siblings {
		leftovers += len(sib)
	}
	if names := sortedKeys(r.services.services); leftovers > 0 && len(names) > 0 {
		defer os.Remove(p) // (the command may have created it)
		if err := r.StopService(names[0], 0, "after-restart"); err != nil {
			return "", fmt.Errorf("stop after the restart failed: %v", err)
		}
		live := routerSummary(r)
		r2 := NewRouter(p)
		if err := r2.RestoreLastSavedState(); err != nil {
			return "", fmt.Errorf("state file unreadable after a command that followed the restart: %v", err)
		}
		got := routerSummary(r2)
		for _, s := range r2.services.services {
			s.Dispose()
		}
		if got != live {
			return "", fmt.Errorf("after the restart a further command (stop %s) returned, but the state file restores to {%s} while {%s} is in force (temporary files left by the killed process: %d)", names[0], got, live, leftovers)
		}
	}
	return sum, nil
}

// routerSummary describes the configuration a router holds: list output plus
// rollout targets and split (peeked).
func routerSummary(r *Router) string {
	l := r.ListActiveServices()
	var parts []string
	for _, n := range sortedKeys(l) {
		d := l[n]
		extra := ""
		r.serviceLock.RLock()
		if s := r.services.services[n]; s != nil {
			if s.rollout != nil {
				extra += " rollout=" + strings.Join(s.rollout.Targets().Names(), ",")
			}
			if s.rolloutController != nil {
				extra += fmt.Sprintf(" split=%d/%v", s.rolloutController.Percentage, s.rolloutController.Allowlist)
			}
			extra += fmt.Sprintf(" msg=%q max=%v", s.pauseController.StopMessage, s.pauseController.FailAfter)
		}
		r.serviceLock.RUnlock()
		parts = append(parts, fmt.Sprintf("%s host=%s path=%s target=%s state=%s tls=%v%s", n, d.Host, d.Path, d.Target, d.State, d.TLS, extra))
	}
	return strings.Join(parts, "; ")
}

// stateFileTouched reports how the state path was written during ops[from:]:
// "direct" (created/truncated in place) or "rename" (only ever a rename destination) or "".
func stateWriteScheme(w *World, from int) string {
	scheme := ""
	for _, e := range w.FileLog[from:] {
		if e.Path == w.State && (e.Op == "create" || e.Op == "openfile" || e.Op == "writefile" || e.Op == "truncate") {
			return "direct"
		}
		if e.Path2 == w.State && e.Op == "rename" {
			scheme = "rename"
		}
	}
	return scheme
}

var c12Alphabet = []string{
	"deploy s1 h=a.example.com p=/",
	"deploy s1 h=a.example.com p=/ n=2",
	"deploy s2 h=- p=/ o=tls",
	"deploy s2 h=b.example.com p=/api",
	"rdeploy s1 n=1",
	"rset s1 pct=50 allow=v",
	"rstop s1",
	"pause s1 max=20000",
	"stop s1 msg=m2",
	"resume s1",
	"remove s1",
	"remove s2",
	// failing commands also rewrite the file
	"deploy s1 h=a.example.com p=/ bad=unhealthy-all",
	"deploy s3 h=a.example.com p=/",
	"pause nosuch max=1000",
	"rset s2 pct=10 allow=-",
}

func c12Spec(tier string) *HSpec {
	depth := 3
	if tier == "thorough" {
		depth = 4
	}
	var beforeSum string
	var beforeImages, beforeLog int
	spec := &HSpec{Prop: "C12", Name: "C12-F", Depth: depth, ExtendFailed: false,
		Obs:     ObsSpec{Hosts: []string{"a.example.com"}, Paths: []string{"/"}, Cookies: []string{""}, TLS: []bool{false}},
		Clauses: map[string]bool{},
	}
	spec.Alphabet = func(m *Model, d int) []string { return c12Alphabet }
	spec.PreLast = func(h *HWorld, op HOp) {
		h.mu.Lock()
		beforeImages, beforeLog = len(h.Images), len(h.FileLog)
		h.mu.Unlock()
		b, err := os.ReadFile(h.State)
		beforeSum, _ = restoredSummary(h.World, b, err == nil)
	}
	spec.Extra = func(h *HWorld, op HOp, o *HObs) []Violation {
		var vs []Violation
		add := func(sig, d string) { vs = append(vs, Violation{"C12", sig, fmt.Sprintf("command %q: %s", op.raw, d)}) }
		afterSum := routerSummary(h.Router)
		h.mu.Lock()
		images := append([]Image(nil), h.Images[beforeImages:]...)
		h.mu.Unlock()
		// the file at return
		fb, ferr := os.ReadFile(h.State)
		images = append(images, Image{After: "return", Exists: ferr == nil, Data: fb})
		if stateWriteScheme(h.World, beforeLog) == "direct" && tier == "thorough" {
			// torn writes: the kernel may have taken only a prefix of the data when the process dies
			for _, k := range []int{1, len(fb) / 2, len(fb) - 1} {
				if k > 0 && k < len(fb) {
					images = append(images, Image{After: fmt.Sprintf("torn-write@%d", k), Exists: true, Data: fb[:k]})
				}
			}
		}
		for _, im := range images {
			sum, err := restoredSummary(h.World, im.Data, im.Exists, im.Siblings)
			at := im.After
			if strings.HasPrefix(at, "create:") && len(im.Data) == 0 {
				at = "after-truncate"
			}
			at = strings.Split(at, "@")[0]
			switch {
			case err != nil:
				add("torn-snapshot at="+at, fmt.Sprintf("a process killed at %q leaves a state file (%d bytes) that cannot be restored: %v; before: {%s} after: {%s}", im.After, len(im.Data), err, beforeSum, afterSum))
			case sum != beforeSum && sum != afterSum:
				add("snapshot-neither-before-nor-after at="+at, fmt.Sprintf("image at %q restores to {%s}; before: {%s} after: {%s}", im.After, sum, beforeSum, afterSum))
			case im.After == "return" && sum != afterSum:
				add("stale-snapshot-at-return "+op.Kind, fmt.Sprintf("after the command returned the file restores to {%s} but the configuration in force is {%s}", sum, afterSum))
			}
		}
		return vs
	}
	return spec
}

// ---- engine S part: two overlapping commands

type c12cfg struct{ a, b string }

var c12Pairs = []string{"deploy s1 h=a.example.com p=/ n=2", "deploy s2 h=b.example.com p=/", "remove s1", "pause s1 max=20000", "resume s1", "rset s1 pct=30 allow=v", "stop s1 msg=m1"}

func c12Scenario(c c12cfg) *Scenario {
	sc := &Scenario{Name: fmt.Sprintf("C12-S %q || %q", c.a, c.b), Horizon: 60 * time.Second}
	var stale, neither []string
	var candidates map[string]bool
	sc.Run = func(w *World) {
		stale, neither = nil, nil
		h := &HWorld{World: w, M: newModel(), allNames: map[string]bool{}}
		h.apply(parseOp("deploy s1 h=a.example.com p=/"))
		h.apply(parseOp("rdeploy s1 n=1"))
		time.Sleep(100 * time.Millisecond)
		start := len(w.Images)
		var wg vsync.WaitGroup
		w.S.SetWindow(true)
		for i, opS := range []string{c.a, c.b} {
			wg.Add(1)
			op := parseOp(opS)
			hw := &HWorld{World: w, M: newModel(), allNames: map[string]bool{}, opNo: 10 * (i + 1)}
			// the model is not used here; only the command side of apply
			hw.M.Services["s1"] = &MService{Name: "s1", Hosts: []string{"a.example.com"}, Paths: []string{"/"}, Rollout: []string{"x"}, Gate: "running"}
			vsched.GoTagged("cmd", func() {
				defer wg.Done()
				hw.apply(op)
			})
		}
		wg.Wait()
		w.S.SetWindow(false)
		// the file must describe the configuration in force now
		fb, ferr := os.ReadFile(w.State)
		fileSum, err := restoredSummary(w, fb, ferr == nil)
		live := routerSummary(w.Router)
		if err != nil {
			stale = append(stale, "unrestorable: "+err.Error())
		} else if fileSum != live {
			stale = append(stale, fmt.Sprintf("file restores to {%s} but the configuration in force is {%s}", fileSum, live))
		}
		w.mu.Lock()
		imgs := append([]Image(nil), w.Images[start:]...)
		w.mu.Unlock()
		_ = candidates
		for _, im := range imgs {
			if _, err := restoredSummary(w, im.Data, im.Exists, im.Siblings); err != nil {
				neither = append(neither, fmt.Sprintf("%s: %v", im.After, err))
			}
		}
	}
	sc.Check = func(w *World) []Violation {
		var vs []Violation
		for _, s := range stale {
			vs = append(vs, Violation{"C12", "stale-snapshot after-overlapping-commands", s})
		}
		for _, s := range neither {
			vs = append(vs, Violation{"C12", "torn-snapshot during-overlapping-commands", s})
		}
		return vs
	}
	return sc
}

func checkC12(t *testing.T, job *Job, res *Result) {
	tier := job.Tier
	if job.Replay != nil {
		tier = job.Replay.Tier
	}
	res.Rule = "engine F: for every history of engine H up to the depth bound (deploy variants, rollout deploy/set/stop, pause, stop, resume, remove, failing commands) and every image of the state file (together with the temporary files left next to it) taken after each file operation of the last command (create/truncate, temp file, rename, ...) and at return (thorough: also prefixes of an in-place write): the image is given to the real RestoreLastSavedState in a scratch router and must restore to the configuration before or after the command, the one at return to the one after; engine S: ordered pairs of overlapping commands with file operations as scheduling points, every schedule within the bound: once both returned the file restores to the configuration in force, no intermediate image is unrestorable"
	if job.Replay == nil || job.Replay.Engine == "H" {
		spec := c12Spec(tier)
		res.Bounds = fmt.Sprintf("histories<=%d commands; kill between system calls", spec.Depth)
		exploreH(t, job, res, spec)
	}
	if job.Replay == nil || job.Replay.Engine == "S" {
		var scs []*Scenario
		for i, a := range c12Pairs {
			for j, b := range c12Pairs {
				if j <= i && a != "deploy s1 h=a.example.com p=/ n=2" {
					continue // unordered pairs; thread order is decided by the scheduler
				}
				if j < i {
					continue
				}
				scs = append(scs, c12Scenario(c12cfg{a, b}))
			}
		}
		sort.SliceStable(scs, func(i, j int) bool { return scs[i].Name < scs[j].Name })
		b := Bounds{D: 2, S: 0}
		if tier == "thorough" {
			b = Bounds{D: 3, S: 0}
		}
		runS(t, job, res, "C12", withReversed(scs), b, 0)
	}
	res.Engine = "F+S"
}
