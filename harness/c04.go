//go:build verif

package server

import (
	"fmt"
	"sort"
	"strings"
	"testing"
	"time"
)

func init() { checks["C04"] = checkC04 }

type c04svc struct {
	hosts string // comma separated, "-" = default
	paths string
}

func c04Universe(tier string, triples bool) []c04svc {
	hostsets := []string{"-", "example.com", "a.example.com", "*.example.com", "*.a.example.com", "b.example.com", "localhost",
		"a.example.com,b.example.com", "example.com,*.example.com", "-,localhost", "*.a.example.com,a.example.com"}
	pathsets := []string{"/", "/api", "/apiary", "/api/v2", "/a", "/,/api", "api/,/api/v2", "/api/,/a", "/apiary,/api", "/,/api,/a"}
	if triples {
		hostsets = []string{"-", "a.example.com", "*.example.com", "*.a.example.com", "example.com,localhost", "a.example.com,b.example.com"}
		pathsets = []string{"/", "/api", "/apiary", "/api/v2", "/,/api/v2", "/,/apiary,/a"}
	}
	var u []c04svc
	for _, h := range hostsets {
		for _, p := range pathsets {
			u = append(u, c04svc{h, p})
		}
	}
	return u
}

func (s c04svc) claim() c05claim {
	var c c05claim
	if s.hosts != "-" {
		for _, h := range strings.Split(s.hosts, ",") {
			if h == "-" {
				h = ""
			}
			c.hosts = append(c.hosts, h)
		}
	}
	c.paths = normPaths(strings.Split(s.paths, ","))
	return c
}

func permutations(n int) [][]int {
	var res [][]int
	var rec func(cur []int, used int)
	rec = func(cur []int, used int) {
		if len(cur) == n {
			res = append(res, append([]int(nil), cur...))
			return
		}
		for i := 0; i < n; i++ {
			if used&(1<<i) == 0 {
				rec(append(cur, i), used|1<<i)
			}
		}
	}
	rec(nil, 0)
	return res
}

func c04Histories(table []c04svc) [][]string {
	op := func(i int) string {
		return fmt.Sprintf("deploy s%d h=%s p=%s", i+1, table[i].hosts, table[i].paths)
	}
	var res [][]string
	for _, perm := range permutations(len(table)) {
		var h []string
		for _, i := range perm {
			h = append(h, op(i))
		}
		res = append(res, h)
	}
	// one variant with a remove + redeploy in the middle, one with a restart at the end
	var base []string
	for i := range table {
		base = append(base, op(i))
	}
	mid := append([]string{}, base[:1]...)
	mid = append(mid, base[1:]...)
	mid = append(mid, "remove s1", op(0))
	res = append(res, mid)
	res = append(res, append(append([]string{}, base...), "restart"))
	// services that leave a binding: removed, or redeployed onto another host
	res = append(res, append(append([]string{}, base...), "remove s1"))
	res = append(res, append(append([]string{}, base...), fmt.Sprintf("deploy s1 h=z.example.org p=%s", table[0].paths)))
	res = append(res, append(append([]string{}, base...), fmt.Sprintf("deploy s%d h=z.example.org p=/zz", len(table)), "restart"))
	// the same table with the service names in the opposite order (the order in which
	// the implementation walks its services must not matter)
	var rev []string
	for i := range table {
		rev = append(rev, fmt.Sprintf("deploy t%d h=%s p=%s", len(table)-i, table[i].hosts, table[i].paths))
	}
	res = append(res, rev)
	return res
}

func checkC04(t *testing.T, job *Job, res *Result) {
	tier := job.Tier
	if job.Replay != nil {
		tier = job.Replay.Tier
	}
	res.Engine = "E"
	res.Rule = "tables = every conflict-free set of 2 services (and, over a smaller universe, 3 services) with 1-2 hosts from {default, example.com, a.example.com, *.example.com, *.a.example.com, b.example.com, localhost} and 1-2 path prefixes from {/, /api, /apiary, /api/v2, /a} (some spelled un-normalised); for each table every permutation of the deploy order, one history with remove+redeploy, one ending in a restart, one removing a service, two moving a service to another host (the second followed by a restart), one with the service names in the opposite order; requests: 12 Host headers (ports, IPv6 literals, single label, multi-level subdomains, empty) x 12 paths (look-alikes, trailing and empty segments); oracle: 25-line reference routing function; all orders must agree with it; in the histories where a binding goes away or moves, requests for every Host are also sent between the commands"
	spec := &HSpec{Prop: "C04", Name: "C04",
		Obs: ObsSpec{
			Hosts:   []string{"example.com", "a.example.com", "a.example.com:8080", "x.a.example.com", "y.x.a.example.com", "b.example.com", "other.org", "localhost", "localhost:80", "[::1]", "[::1]:80", ""},
			Paths:   []string{"/", "/api", "/api/", "/apiary", "/api/v2", "/api/v2/x", "/api//v2", "//api", "/a", "/ap", "/API", "/apiary/api"},
			Cookies: []string{""}, TLS: []bool{false}},
		Clauses: map[string]bool{"routing": true, "target-set": true, "gate": true, "tls-policy": true},
	}
	warm := *spec
	warm.WarmBetween = &ObsSpec{Hosts: spec.Obs.Hosts, Paths: []string{"/", "/api/v2/x"}, Cookies: []string{""}, TLS: []bool{false}}
	warmSpec := &warm
	g := &GenStats{Histogram: map[string]int{}, DistinctKeys: map[string]struct{}{}}
	res.Gen = g
	if job.Replay != nil {
		// the same choice as below: histories longer than their table got traffic between the commands
		names := map[string]bool{}
		for _, op := range job.Replay.History {
			f := strings.Fields(op)
			if len(f) > 1 && f[0] == "deploy" {
				names[f[1]] = true
			}
		}
		if len(job.Replay.History) > len(names) {
			exploreH(t, job, res, warmSpec)
		} else {
			exploreH(t, job, res, spec)
		}
		return
	}
	budget := time.Duration(job.BudgetS) * time.Second
	deadline := time.Now().Add(budget)
	found := map[string]*Found{}
	nsh := job.NShards
	if nsh <= 0 {
		nsh = 1
	}
	idx := 0
	run := func(table []c04svc) {
		idx++
		if idx%nsh != job.Shard {
			return
		}
		if g.Capped || time.Now().After(deadline) {
			g.Capped = true
			g.CapNote = "wall-clock budget reached"
			return
		}
		for _, hist := range c04Histories(table) {
			hs := spec
			if len(hist) > len(table) {
				// histories in which a binding goes away or moves: with requests between the commands
				hs = warmSpec
			}
			r, m, _ := runHistory(t, hs, hist)
			g.Evaluations += len(spec.Obs.Hosts) * len(spec.Obs.Paths)
			g.Transitions++
			g.DistinctKeys[m.key()] = struct{}{}
			g.Histogram[fmt.Sprintf("services=%d", len(table))]++
			if r.Infra != "" {
				g.Infra = append(g.Infra, strings.Join(hist, " ; ")+": "+r.Infra)
			}
			for _, v := range r.Violations {
				k := v.Property + "|" + v.Signature
				f := found[k]
				if f == nil {
					f = &Found{Violation: v, History: hist, Scenario: "C04"}
					found[k] = f
				}
				f.Count++
			}
			if len(g.Samples) < 2 {
				g.Samples = append(g.Samples, map[string]any{"history": hist, "cells": len(spec.Obs.Hosts) * len(spec.Obs.Paths), "model_state": m.key()})
			}
		}
	}
	u := c04Universe(tier, false)
	step := 1
	if tier == "quick" {
		step = 5 // quick: every fifth service of the universe as first member (the full product is the thorough tier)
	}
	for i := 0; i < len(u); i += step {
		for j := i + 1; j < len(u); j++ {
			if claimsConflict(u[i].claim(), u[j].claim()) {
				continue
			}
			run([]c04svc{u[i], u[j]})
		}
	}
	u3 := c04Universe(tier, true)
	step3 := 1
	if tier == "quick" {
		step3 = 5
	}
	for i := 0; i < len(u3); i += step3 {
		for j := i + 1; j < len(u3); j++ {
			for k := j + 1; k < len(u3); k++ {
				a, b, c := u3[i].claim(), u3[j].claim(), u3[k].claim()
				if claimsConflict(a, b) || claimsConflict(a, c) || claimsConflict(b, c) {
					continue
				}
				run([]c04svc{u3[i], u3[j], u3[k]})
			}
		}
	}
	keys := make([]string, 0, len(found))
	for k := range found {
		keys = append(keys, k)
	}
	sort.Strings(keys)
	for _, k := range keys {
		g.Found = append(g.Found, found[k])
	}
	g.Distinct = len(g.DistinctKeys)
	g.States = len(g.DistinctKeys)
	res.Bounds = "all conflict-free tables of 2 services over an 11x10 binding universe and of 3 services over a 6x6 universe; every deploy order"
	if tier == "quick" {
		res.Bounds += " (quick tier: first member restricted to every 5th element of the universe)"
	}
}
