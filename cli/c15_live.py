#!/usr/bin/env python3
"""C15, live part: the well-formed 504 through the REAL listening server (the binary built from /repo's working tree).

The engine-F part of C15 drives the handler chain on an in-memory network under a virtual clock; what sits in front of
that chain in production - net/http's server with its own deadlines - is only there in the real binary. This part
enumerates target timeouts on both sides of net/http's and the proxy's defaults (30 s) x {built-in page, custom page}
against a target that never answers, in real time, all cases at once: every client must receive a complete 504
response at its service's target timeout.

Called by ./check for C15 (run(binp, tier, scratch)); returns (found, coverage)."""
import http.client, os, threading, time

import c20


def run(binp, tier, scratch):
    found = {}

    def add(sig, detail, inp):
        f = found.setdefault(sig, {"property": "C15", "signature": sig, "detail": detail, "input": inp, "count": 0, "devs": [], "scenario": "live proxy", "engine": "E"})
        f["count"] += 1

    cases = [(2, False), (31, False), (31, True)]
    if tier == "thorough":
        cases += [(2, True), (29, False), (35, False), (61, False)]
    up = c20.Upstream()
    px = c20.Proxy(binp, scratch)
    results = {}
    classes = set()
    try:
        pages = os.path.join(px.dir, "pages")
        os.makedirs(pages)
        open(os.path.join(pages, "504.html"), "w").write("<body>custom 504 page</body>")
        threads = []
        for i, (tt, custom) in enumerate(cases):
            host = "live%d.example.com" % i
            args = ["deploy", "live%d" % i, "--target", up.start(), "--host", host, "--target-timeout", "%ds" % tt]
            if custom:
                args += ["--error-pages", pages]
            rc, out = px.cli(*args)
            if rc != 0:
                add("live-setup-failed", "%s: exit %d %r" % (" ".join(args), rc, out[-300:]), " ".join(args))
                continue

            def client(i=i, tt=tt, host=host):
                t0 = time.time()
                try:
                    c = http.client.HTTPConnection("127.0.0.1", px.http, timeout=tt + 30)
                    c.request("GET", "/slow?ms=%d" % ((tt + 20) * 1000), headers={"Host": host})
                    r = c.getresponse()
                    body = r.read()
                    results[i] = (r.status, time.time() - t0, body, None)
                except Exception as e:  # noqa
                    results[i] = (0, time.time() - t0, b"", repr(e))
            th = threading.Thread(target=client, daemon=True)
            th.start()
            threads.append(th)
        for th in threads:
            th.join(timeout=150)
        for i, (tt, custom) in enumerate(cases):
            if i not in results:
                add("live-request-never-finished target-timeout=%ds" % tt, "no response and no error within %ds" % (tt + 30), str(cases[i]))
                continue
            status, el, body, err = results[i]
            classes.add("target-timeout=%ds custom=%s" % (tt, custom))
            inp = "target-timeout=%ds custom-pages=%s" % (tt, custom)
            if status != 504:
                add("no-well-formed-504-through-the-listening-server target-timeout=%s" % ("below-30s" if tt < 30 else "30s-or-more"),
                    "silent target, --target-timeout %ds: the client got status %d after %.1fs (error %s) instead of a 504" % (tt, status, el, err), inp)
                continue
            if not (tt - 0.5 <= el <= tt + 3):
                add("504-not-at-target-timeout live", "--target-timeout %ds: 504 after %.1fs" % (tt, el), inp)
            if custom != (b"custom 504 page" in body) or len(body) == 0:
                add("error-page-selection live", "--target-timeout %ds custom=%s: body %r" % (tt, custom, body[:120]), inp)
    finally:
        px.stop()
        up.stop()
    cov = {"live_server": {"cases": len(cases), "distinct": len(classes), "exhaustive": True,
                           "rule": "real binary, real time: target that never answers x --target-timeout in %s x {built-in, custom} error pages; oracle: complete 504 response with the right page at the target timeout" % sorted(set(c[0] for c in cases))}}
    return found, cov
