#!/usr/bin/env python3
"""C20: CLI options, validation, exit codes and list output, decided by
exhaustive enumeration on the binary built from /repo's working tree.

Called by ./check (function run(ctx)); returns (found, coverage)."""
import concurrent.futures as cf
import http.client
import http.server, itertools, json, os, re, shutil, socket, subprocess, tempfile, threading, time

ANSI = re.compile(r"\x1b\[[0-9;]*m")


def sh(cmd, env=None, timeout=60):
    p = subprocess.run(cmd, env=env, stdout=subprocess.PIPE, stderr=subprocess.STDOUT, text=True, timeout=timeout)
    return p.returncode, p.stdout


class Upstream:
    """Tiny HTTP target: /up answers 200 unless the port is in `sick`."""

    def __init__(self):
        self.sick = set()
        outer = self

        class H(http.server.BaseHTTPRequestHandler):
            def do_GET(self):
                port = self.server.server_address[1]
                if self.path.startswith("/slow?ms="):
                    time.sleep(int(self.path.split("=", 1)[1]) / 1000.0)
                code = 500 if port in outer.sick else 200
                body = b"ok"
                try:
                    self.send_response(code)
                    self.send_header("Content-Length", str(len(body)))
                    self.end_headers()
                    self.wfile.write(body)
                except OSError:
                    pass  # the proxy gave up on this request

            def log_message(self, *a):
                pass

        self.H = H
        self.servers = []

    def start(self, sick=False):
        s = http.server.ThreadingHTTPServer(("127.0.0.1", 0), self.H)
        port = s.server_address[1]
        if sick:
            self.sick.add(port)
        threading.Thread(target=s.serve_forever, daemon=True).start()
        self.servers.append(s)
        return "127.0.0.1:%d" % port

    def stop(self):
        for s in self.servers:
            s.shutdown()
            s.server_close()


def listening_ports(pid):
    """TCP ports the process is listening on (its socket inodes looked up in /proc/net/tcp*)."""
    inodes = set()
    try:
        for fd in os.listdir("/proc/%d/fd" % pid):
            try:
                l = os.readlink("/proc/%d/fd/%s" % (pid, fd))
            except OSError:
                continue
            m = re.match(r"socket:\[(\d+)\]", l)
            if m:
                inodes.add(m.group(1))
    except OSError:
        return set()
    ports = set()
    for f in ("/proc/net/tcp", "/proc/net/tcp6"):
        try:
            for line in open(f).read().splitlines()[1:]:
                p = line.split()
                if len(p) > 9 and p[3] == "0A" and p[9] in inodes:
                    ports.add(int(p[1].rsplit(":", 1)[1], 16))
        except OSError:
            pass
    return ports


def free_port():
    s = socket.socket()
    s.bind(("127.0.0.1", 0))
    p = s.getsockname()[1]
    s.close()
    return p


class Proxy:
    def __init__(self, binp, scratch, extra_env=None, args=None):
        self.dir = tempfile.mkdtemp(prefix="kpv-cli-", dir=scratch)
        self.env = {"PATH": os.environ.get("PATH", ""), "HOME": self.dir, "XDG_RUNTIME_DIR": self.dir}
        self.env.update(extra_env or {})
        self.binp = binp
        self.http, self.https = free_port(), free_port()
        a = args if args is not None else ["--http-port", str(self.http), "--https-port", str(self.https)]
        self.log = open(os.path.join(self.dir, "proxy.log"), "w")
        self.p = subprocess.Popen([binp, "run"] + a, env=self.env, stdout=self.log, stderr=subprocess.STDOUT)
        sock = os.path.join(self.dir, "kamal-proxy.sock")
        for _ in range(200):
            if os.path.exists(sock) or self.p.poll() is not None:
                break
            time.sleep(0.02)

    def cli(self, *args, timeout=60):
        return sh([self.binp] + list(args), env=self.env, timeout=timeout)

    def logs(self):
        self.log.flush()
        return open(os.path.join(self.dir, "proxy.log")).read()

    def stop(self):
        try:
            self.p.terminate()
            self.p.wait(timeout=10)
        except Exception:
            self.p.kill()
        self.log.close()
        shutil.rmtree(self.dir, ignore_errors=True)


def run(binp, tier, scratch, workers=16):
    found = {}
    evals = 0
    classes = set()
    samples = []

    def add(sig, detail, inp):
        f = found.setdefault(sig, {"property": "C20", "signature": sig, "detail": detail, "input": inp, "count": 0, "devs": [], "scenario": "cli", "engine": "E"})
        f["count"] += 1

    # ------------------------------------------------------------------ (1) run options: flag / prefixed / bare / default
    opts = [("http-port", "HTTP_PORT", "80", ["18080"], ["abc", "", "80.5", " 81"]),
            ("https-port", "HTTPS_PORT", "443", ["18443"], ["xyz", "", "0x1bb"]),
            ("debug", "DEBUG", "false", ["true", "1"], ["maybe", "", "yes"])]
    jobs = []
    for flag, name, default, valids, bads in opts:
        values = [None] + valids[:1] + bads
        if tier == "thorough":
            values = [None] + valids + bads
        if flag != "debug":
            values = values + ["0"]  # well-formed: "any free port" (the kernel picks one), not "unset"
        for pv in values:
            for bv in values:
                jobs.append((flag, name, default, pv, bv, valids))

    default_port_lock = threading.Lock()

    def parse_val(flag, v):
        if flag == "debug":
            return {"1": "true", "t": "true", "T": "true", "TRUE": "true", "true": "true", "True": "true",
                    "0": "false", "f": "false", "F": "false", "FALSE": "false", "false": "false", "False": "false"}.get(v)
        if re.fullmatch(r"[+-]?[0-9]+", v or ""):
            return str(int(v))
        return None

    def effective(job):
        """Starts the proxy with the environment of the job and observes the value in force."""
        flag, name, default, pv, bv, valids = job
        env = {}
        if pv is not None:
            env["KAMAL_PROXY_" + name] = pv
        # valid port values are private to the job (jobs run concurrently)
        if flag != "debug":
            if pv in valids:
                pv = str(free_port())
                env["KAMAL_PROXY_" + name] = pv
            if bv in valids:
                bv = str(free_port())
        if bv is not None:
            env[name] = bv
        chosen = env.get("KAMAL_PROXY_" + name) if pv is not None else (env.get(name) if bv is not None else None)
        want = default if chosen is None else (parse_val(flag, chosen) or default)
        args = []
        # the options not under test get explicit free ports
        if flag != "http-port":
            args += ["--http-port", str(free_port())]
        if flag != "https-port":
            args += ["--https-port", str(free_port())]
        lock = default_port_lock if (flag != "debug" and want == default) else None
        if lock:
            lock.acquire()
        try:
            px = Proxy(binp, scratch, extra_env=env, args=args)
            try:
                if flag == "debug":
                    px.cli("remove", "nosuch")
                    time.sleep(0.15)
                    got = "true" if '"level":"DEBUG"' in px.logs() else "false"
                else:
                    other = int(args[1])
                    if px.p.poll() is not None:
                        # could not start: the error names the address it tried to bind
                        m = re.search(r"listen tcp [^:]*:(\d+)", px.logs())
                        got = m.group(1) if m else "not-started"
                    else:
                        mine = listening_ports(px.p.pid) - {other}
                        got = ",".join(str(x) for x in sorted(mine)) or "none"
                        if want == "0" and len(mine) == 1 and str(list(mine)[0]) != default:
                            got = "0"  # one port of the kernel's choosing
            finally:
                px.stop()
        finally:
            if lock:
                lock.release()
        return job, env, got, want

    with cf.ThreadPoolExecutor(workers) as ex:
        for job, env, got, want in ex.map(effective, jobs):
            evals += 1
            flag, name, default, pv, bv, _ = job
            classes.add("run-option %s prefixed=%s bare=%s" % (flag, "unset" if pv is None else ("valid" if parse_val(flag, pv) else "malformed"), "unset" if bv is None else ("valid" if parse_val(flag, bv) else "malformed")))
            if got != want:
                add("run-option-resolution %s" % flag, "environment %r (no flag): the proxy runs with %s=%s, the documented resolution gives %s" % (env, flag, got, want), json.dumps({"flag": flag, "prefixed": pv, "bare": bv}))
            if len(samples) < 2:
                samples.append({"kind": "run-option", "flag": flag, "environment": env, "effective": got})

    # flag beats environment: really start the proxy
    hp, sp = free_port(), free_port()
    px = Proxy(binp, scratch, extra_env={"KAMAL_PROXY_HTTP_PORT": str(free_port()), "HTTPS_PORT": str(free_port()), "KAMAL_PROXY_DEBUG": "false"},
               args=["--http-port", str(hp), "--https-port", str(sp), "--debug"])
    try:
        evals += 3
        classes.add("run-option flag-overrides-env")
        for port, what in ((hp, "http-port"), (sp, "https-port")):
            try:
                socket.create_connection(("127.0.0.1", port), timeout=2).close()
            except OSError:
                add("flag-does-not-override-env " + what, "proxy started with --%s %d (and a different value in the environment) does not listen there" % (what, port), what)
        px.cli("remove", "nosuch")
        time.sleep(0.2)
        if '"level":"DEBUG"' not in px.logs():
            add("flag-does-not-override-env debug", "--debug with KAMAL_PROXY_DEBUG=false: no debug-level line logged", "debug")
    finally:
        px.stop()
    # a flag given explicitly with the value of the built-in default still beats the environment
    for flagargs, env, what, want in (
            (["--http-port", "80", "--https-port", str(free_port())], {"HTTP_PORT": str(free_port())}, "http-port", "80"),
            (["--https-port", "443", "--http-port", str(free_port())], {"KAMAL_PROXY_HTTPS_PORT": str(free_port())}, "https-port", "443"),
            (["--debug=false", "--http-port", str(free_port()), "--https-port", str(free_port())], {"DEBUG": "true"}, "debug", "false")):
        px = Proxy(binp, scratch, extra_env=env, args=flagargs)
        try:
            evals += 1
            classes.add("run-option flag-equal-to-default-overrides-env " + what)
            if what == "debug":
                px.cli("remove", "nosuch")
                time.sleep(0.2)
                got = "true" if '"level":"DEBUG"' in px.logs() else "false"
            else:
                got = "none"
                try:
                    socket.create_connection(("127.0.0.1", int(want)), timeout=1).close()
                    got = want
                except OSError:
                    m = re.search(r"listen tcp [^:]*:(\d+)", px.logs())
                    if m:
                        got = m.group(1)
                    else:
                        for v in env.values():
                            try:
                                socket.create_connection(("127.0.0.1", int(v)), timeout=1).close()
                                got = v
                            except OSError:
                                pass
            if got != want:
                add("flag-does-not-override-env " + what + " (flag value equals the default)", "`run %s` with environment %r: %s in force is %s" % (" ".join(flagargs), env, what, got), what)
        finally:
            px.stop()
    # debug from the environment
    for env, want in (({"KAMAL_PROXY_DEBUG": "true"}, True), ({"DEBUG": "true"}, True), ({"KAMAL_PROXY_DEBUG": "maybe", "DEBUG": "true"}, False), ({}, False), ({"KAMAL_PROXY_DEBUG": "false", "DEBUG": "true"}, False)):
        px = Proxy(binp, scratch, extra_env=env)
        try:
            evals += 1
            classes.add("run-option debug-observed env=%s" % sorted(env))
            px.cli("remove", "nosuch")
            time.sleep(0.2)
            got = '"level":"DEBUG"' in px.logs()
            if got != want:
                add("debug-option-resolution", "environment %r: debug logging %s, documented resolution says %s" % (env, got, want), json.dumps(env))
        finally:
            px.stop()

    # ------------------------------------------------------------------ (2) deploy validation before contacting the proxy
    dims = [("tls", [False, True]), ("host", [False, True]), ("prefix", [None, "/", "/api", "/,/api"]), ("maxreq", [False, True]), ("bufreq", [False, True]), ("maxresp", [False, True]), ("bufresp", [False, True]),
            # flags that play no part in the validation must not change its outcome
            ("extra", [None, "--forward-headers", "--forward-headers=false", "--tls-redirect=false", "--strip-path-prefix=false"])]
    combos = list(itertools.product(*[v for _, v in dims]))

    def validate(c):
        tls, host, prefix, maxreq, bufreq, maxresp, bufresp, extra = c
        d = tempfile.mkdtemp(prefix="kpv-val-", dir=scratch)
        env = {"PATH": os.environ.get("PATH", ""), "HOME": d, "XDG_RUNTIME_DIR": d}
        args = [binp, "deploy", "svc", "--target", "127.0.0.1:9"]
        if tls:
            args.append("--tls")
        if host:
            args += ["--host", "a.example.com"]
        if prefix:
            for p in prefix.split(","):
                args += ["--path-prefix", p]
        if maxreq:
            args += ["--max-request-body", "100"]
        if bufreq:
            args.append("--buffer-requests")
        if maxresp:
            args += ["--max-response-body", "100"]
        if bufresp:
            args.append("--buffer-responses")
        if extra:
            args.append(extra)
        rc, out = sh(args, env=env)
        shutil.rmtree(d, ignore_errors=True)
        refuse = []
        if maxreq and not bufreq:
            refuse.append("max-request-body")
        if maxresp and not bufresp:
            refuse.append("max-response-body")
        if tls and not host:
            refuse.append("host must be set")
        if tls and prefix is not None and "/" not in prefix.split(","):
            refuse.append("root path")
        dialed = "dial unix" in out or "connect:" in out or "no such file" in out
        return c, args, rc, out, refuse, dialed

    with cf.ThreadPoolExecutor(workers) as ex:
        for c, args, rc, out, refuse, dialed in ex.map(validate, combos):
            evals += 1
            classes.add("deploy-validation refuse=%s" % "+".join(refuse))
            names = dict(zip([n for n, _ in dims], c))
            if refuse:
                if rc == 0 or dialed or not any(r in out for r in refuse):
                    kind = "contacted-the-proxy" if dialed else "no-message"
                    add("deploy-validation-missing %s (%s)" % ("+".join(refuse), kind), "%s: expected a refusal mentioning %s before contacting the proxy; exit=%d output=%r" % (" ".join(args[1:]), refuse, rc, out[-300:]), json.dumps(names))
            else:
                if not dialed or rc == 0:
                    add("deploy-validation-refuses-valid-combination", "%s: expected to proceed to the proxy (dial error); exit=%d output=%r" % (" ".join(args[1:]), rc, out[-300:]), json.dumps(names))
            if len(samples) < 4 and refuse:
                samples.append({"kind": "deploy-validation", "args": args[1:], "exit": rc, "output": out[-200:]})

    # ------------------------------------------------------------------ (3) exit codes + (4) list, against a live proxy
    up = Upstream()
    px = Proxy(binp, scratch)
    try:
        t1, t2, t3, sick = up.start(), up.start(), up.start(), up.start(sick=True)
        steps = [
            (["list"], True, None),
            (["deploy", "s1", "--target", t1, "--host", "a.example.com"], True, {"s1": ("a.example.com", "/", t1, "running", "no")}),
            (["deploy", "s2", "--target", t2, "--host", "a.example.com"], False, None),  # host conflict
            (["deploy", "s2", "--target", sick, "--host", "b.example.com", "--deploy-timeout", "1s"], False, None),
            (["deploy", "s2", "--target", "bad target!", "--host", "b.example.com"], False, None),
            (["deploy", "s2", "--target", t2 + "," + t3, "--host", "b.example.com,c.example.com", "--path-prefix", "/api", "--path-prefix", "/v2"], True,
             {"s1": ("a.example.com", "/", t1, "running", "no"), "s2": ("b.example.com,c.example.com", "/api,/v2", t2 + "," + t3, "running", "no")}),
            (["pause", "s1"], True, {"s1": ("a.example.com", "/", t1, "paused", "no"), "s2": ("b.example.com,c.example.com", "/api,/v2", t2 + "," + t3, "running", "no")}),
            (["pause", "nosuch"], False, None),
            (["resume", "s1"], True, None),
            (["resume", "nosuch"], False, None),
            (["stop", "s1", "--message", "down"], True, {"s1": ("a.example.com", "/", t1, "stopped", "no"), "s2": ("b.example.com,c.example.com", "/api,/v2", t2 + "," + t3, "running", "no")}),
            (["stop", "nosuch"], False, None),
            (["resume", "s1"], True, None),
            (["rollout", "set", "s1", "--percent", "50"], False, None),  # no rollout targets
            (["rollout", "deploy", "s1", "--target", t3], True, None),
            (["rollout", "deploy", "nosuch", "--target", t3], False, None),
            (["rollout", "deploy", "s1", "--target", sick, "--deploy-timeout", "1s"], False, None),
            (["rollout", "set", "s1", "--percent", "50"], True, None),
            (["rollout", "set", "nosuch", "--percent", "50"], False, None),
            (["rollout", "stop", "s1"], True, None),
            (["rollout", "stop", "nosuch"], False, None),
            (["remove", "nosuch"], False, None),
            (["remove", "s2"], True, {"s1": ("a.example.com", "/", t1, "running", "no")}),
            (["deploy", "s3", "--target", t2], True, {"s1": ("a.example.com", "/", t1, "running", "no"), "s3": ("*", "/", t2, "running", "no")}),
            # a redeploy whose drain takes longer than its deploy timeout (a request is still running on the replaced target):
            # the proxy reports success after the drain, and so must the command
            ("slow-request", "a.example.com", 2500),
            (["deploy", "s1", "--target", t3, "--host", "a.example.com", "--deploy-timeout", "1s", "--drain-timeout", "6s"], True,
             {"s1": ("a.example.com", "/", t3, "running", "no"), "s3": ("*", "/", t2, "running", "no")}),
            (["remove", "s1"], True, {"s3": ("*", "/", t2, "running", "no")}),
            # TLS and plain services mixed, TLS ones sorting before and after the plain one (automatic TLS: no certificate is requested until a handshake)
            (["deploy", "a0", "--target", t1, "--host", "tls0.example.com", "--tls"], True, {"a0": ("tls0.example.com", "/", t1, "running", "yes"), "s3": ("*", "/", t2, "running", "no")}),
            (["deploy", "z9", "--target", t3, "--host", "tls9.example.com", "--tls"], True,
             {"a0": ("tls0.example.com", "/", t1, "running", "yes"), "s3": ("*", "/", t2, "running", "no"), "z9": ("tls9.example.com", "/", t3, "running", "yes")}),
            (["deploy", "m5", "--target", t1, "--host", "plain5.example.com"], True,
             {"a0": ("tls0.example.com", "/", t1, "running", "yes"), "m5": ("plain5.example.com", "/", t1, "running", "no"), "s3": ("*", "/", t2, "running", "no"), "z9": ("tls9.example.com", "/", t3, "running", "yes")}),
            (["remove", "a0"], True, {"m5": ("plain5.example.com", "/", t1, "running", "no"), "s3": ("*", "/", t2, "running", "no"), "z9": ("tls9.example.com", "/", t3, "running", "yes")}),
            (["remove", "z9"], True, {"m5": ("plain5.example.com", "/", t1, "running", "no"), "s3": ("*", "/", t2, "running", "no")}),
            (["remove", "m5"], True, {"s3": ("*", "/", t2, "running", "no")}),
            # a sub-path service shows the TLS setting of the root-path service of its host: followed while the root service
            # arrives, moves to another host, comes back and is removed
            (["deploy", "web", "--target", t1, "--host", "tlsa.example.com", "--tls"], True, {"web": ("tlsa.example.com", "/", t1, "running", "yes"), "s3": ("*", "/", t2, "running", "no")}),
            (["deploy", "api", "--target", t3, "--host", "tlsa.example.com", "--path-prefix", "/api"], True,
             {"api": ("tlsa.example.com", "/api", t3, "running", "yes"), "web": ("tlsa.example.com", "/", t1, "running", "yes"), "s3": ("*", "/", t2, "running", "no")}),
            (["deploy", "web", "--target", t1, "--host", "tlsb.example.com", "--tls"], True,
             {"api": ("tlsa.example.com", "/api", t3, "running", "no"), "web": ("tlsb.example.com", "/", t1, "running", "yes"), "s3": ("*", "/", t2, "running", "no")}),
            (["deploy", "web", "--target", t1, "--host", "tlsa.example.com,tlsb.example.com", "--tls"], True,
             {"api": ("tlsa.example.com", "/api", t3, "running", "yes"), "web": ("tlsa.example.com,tlsb.example.com", "/", t1, "running", "yes"), "s3": ("*", "/", t2, "running", "no")}),
            (["deploy", "web", "--target", t1, "--host", "tlsa.example.com,tlsb.example.com"], True,
             {"api": ("tlsa.example.com", "/api", t3, "running", "no"), "web": ("tlsa.example.com,tlsb.example.com", "/", t1, "running", "no"), "s3": ("*", "/", t2, "running", "no")}),
            (["deploy", "web", "--target", t1, "--host", "tlsa.example.com", "--tls"], True,
             {"api": ("tlsa.example.com", "/api", t3, "running", "yes"), "web": ("tlsa.example.com", "/", t1, "running", "yes"), "s3": ("*", "/", t2, "running", "no")}),
            (["remove", "web"], True, {"api": ("tlsa.example.com", "/api", t3, "running", "no"), "s3": ("*", "/", t2, "running", "no")}),
            (["remove", "api"], True, {"s3": ("*", "/", t2, "running", "no")}),
            # names outside ASCII that are the widest cell of their column (bytes and characters differ)
            (["deploy", "caf\u00e9-fran\u00e7ais-m\u00fcnchen", "--target", t1, "--host", "uni.example.com", "--path-prefix", "/\u0441\u0442\u0440\u0430\u043d\u0438\u0446\u0430-\u0434\u043e\u043a"], True,
             {"caf\u00e9-fran\u00e7ais-m\u00fcnchen": ("uni.example.com", "/\u0441\u0442\u0440\u0430\u043d\u0438\u0446\u0430-\u0434\u043e\u043a", t1, "running", "no"), "s3": ("*", "/", t2, "running", "no")}),
            (["deploy", "\u00e9t\u00e9", "--target", t3, "--host", "ete.example.com"], True,
             {"caf\u00e9-fran\u00e7ais-m\u00fcnchen": ("uni.example.com", "/\u0441\u0442\u0440\u0430\u043d\u0438\u0446\u0430-\u0434\u043e\u043a", t1, "running", "no"), "\u00e9t\u00e9": ("ete.example.com", "/", t3, "running", "no"), "s3": ("*", "/", t2, "running", "no")}),
            (["remove", "caf\u00e9-fran\u00e7ais-m\u00fcnchen"], True, {"\u00e9t\u00e9": ("ete.example.com", "/", t3, "running", "no"), "s3": ("*", "/", t2, "running", "no")}),
            (["remove", "\u00e9t\u00e9"], True, {"s3": ("*", "/", t2, "running", "no")}),
            (["remove", "s3"], True, {}),
        ]
        for args, ok, want_list in steps:
            if args == "slow-request":
                # a client request that keeps its target busy for a while (through the proxy, in the background)
                host, ms = ok, want_list

                def slow(host=host, ms=ms):
                    try:
                        c = http.client.HTTPConnection("127.0.0.1", px.http, timeout=30)
                        c.request("GET", "/slow?ms=%d" % ms, headers={"Host": host})
                        c.getresponse().read()
                    except Exception:
                        pass
                threading.Thread(target=slow, daemon=True).start()
                time.sleep(0.3)
                continue
            rc, out = px.cli(*args)
            evals += 1
            classes.add("exit-code %s %s" % (args[0] if args[0] != "rollout" else "rollout-" + args[1], "ok" if ok else "error"))
            if (rc == 0) != ok:
                add("exit-code %s expected-%s" % (" ".join(args[:2]) if args[0] == "rollout" else args[0], "success" if ok else "failure"), "`%s` exited %d; output %r" % (" ".join(args), rc, out[-300:]), " ".join(args))
            if want_list is not None:
                rc, out = px.cli("list")
                evals += 1
                rows = {}
                lines = [ANSI.sub("", l).rstrip() for l in out.splitlines() if l.strip()]
                for l in lines[1:]:
                    f = l.split()
                    if len(f) == 6:
                        rows[f[0]] = tuple(f[1:])
                classes.add("list services=%d" % len(want_list))
                if rc != 0 or rows != want_list or (lines and lines[0].split() != ["Service", "Host", "Path", "Target", "State", "TLS"]):
                    add("list-output", "after `%s` list printed %r, expected rows %r" % (" ".join(args), lines, want_list), " ".join(args))
                if len(samples) < 6:
                    samples.append({"kind": "list", "after": args, "rows": rows})
    finally:
        px.stop()
        up.stop()
    cov = {"evaluations": evals, "distinct_nontrivial": len(classes), "samples": samples, "exhaustive": True,
           "rule": "(1) for each run option (http-port, https-port, debug): KAMAL_PROXY_<NAME> in {unset, valid, malformed...} x <NAME> in {unset, valid, malformed...} (flag absent), the value in force observed on a running proxy (listening port / debug-level log line); flag over environment, including a flag value equal to the built-in default; (2) all %d combinations of the deploy flags involved in validation, run with no proxy listening: a refusal must carry its message and not dial, an accepted combination must reach the dial error; (3) every client command against a live proxy in states where it succeeds and fails: exit status != 0 iff the proxy reported an error; (4) `list` rows (ANSI stripped) after each step of a history with multi-host, multi-path, multi-target, paused, stopped, TLS services and service names / path prefixes outside ASCII" % len(combos),
           "bounds": "see rule"}
    return found, cov
